// inject: src/lexer/mod.rs
// Bounded Kani checks of the text layer (lexer), which is outside Verus reach (str/UTF-8 code): C05 totality,
// C01/C04 literal values, C18 keyword gate. `features::stack` reads a thread_local (Kani's compiler ICEs on it), so it is
// stubbed by a harness-controlled flag.
use super::*;

static mut VERIF_STACK_FLAG: bool = false;
fn stub_stack() -> bool { unsafe { VERIF_STACK_FLAG } }

fn leak(bytes: &[u8]) -> &'static str {
    let s = std::str::from_utf8(bytes).unwrap();
    Box::leak(String::from(s).into_boxed_str())
}

/// BOUNDED (C18): identifiers of at most 5 letters over the letters of the four stack mnemonics plus two others:
/// the four mnemonics are rejected iff the flag is off; for every other identifier the flag changes nothing
#[kani::proof]
#[kani::unwind(8)]
#[kani::stub(crate::features::stack, stub_stack)]
fn check_instruction_flag_bounded() {
    const ALPHA: [u8; 12] = *b"pushocalretx";
    let len: usize = kani::any();
    kani::assume(len >= 1 && len <= 5);
    let mut buf = [b'a'; 5];
    let mut i = 0;
    while i < 5 {
        let k: usize = kani::any();
        kani::assume(k < 12);
        buf[i] = ALPHA[k];
        i += 1;
    }
    let ident = std::str::from_utf8(&buf[..len]).unwrap();
    let cur = Cursor::new("");
    let is_stack_kw = ident == "push" || ident == "pop" || ident == "call" || ident == "rets";
    unsafe { VERIF_STACK_FLAG = true; }
    let on = cur.check_instruction(ident, 0);
    unsafe { VERIF_STACK_FLAG = false; }
    let off = cur.check_instruction(ident, 0);
    assert!(on.is_ok());
    if is_stack_kw {
        assert!(off.is_err());
        assert!(matches!(on, Ok(TokenKind::Instr(InstrKind::Push | InstrKind::Pop | InstrKind::Call | InstrKind::Rets))));
    } else {
        match (on, off) {
            (Ok(a), Ok(b)) => assert!(a == b),
            _ => assert!(false),
        }
    }
}

/// BOUNDED (C05): every UTF-8 string of at most 3 bytes: tokenising never panics, terminates, and every token span lies
/// inside the source on character boundaries
#[kani::proof]
#[kani::unwind(8)]
#[kani::stub(crate::features::stack, stub_stack)]
fn advance_token_total_bounded() {
    let bytes: [u8; 3] = kani::any();
    let len: usize = kani::any();
    kani::assume(len <= 3);
    kani::assume(std::str::from_utf8(&bytes[..len]).is_ok());
    let src = leak(&bytes[..len]);
    let mut cur = Cursor::new(src);
    let mut n = 0;
    while n < 5 {
        match cur.advance_token() {
            Err(_) => break,
            Ok(tok) => {
                if tok.kind == TokenKind::Eof { break; }
                assert!(tok.span.end() <= src.len());
                assert!(src.is_char_boundary(tok.span.offs()) && src.is_char_boundary(tok.span.end()));
                assert!(tok.span.len() >= 1);
            }
        }
        n += 1;
    }
    assert!(n < 5);
}

/// BOUNDED (C01/C04): hex literals `x` + 1..=5 hex digits: value is the 16-bit two's complement reading; more than 16 bits is an error
#[kani::proof]
#[kani::unwind(9)]
#[kani::stub(crate::features::stack, stub_stack)]
fn hex_literal_value_bounded() {
    const HEX: [u8; 16] = *b"0123456789abcdeF";
    let nd: usize = kani::any();
    kani::assume(nd >= 1 && nd <= 5);
    let mut buf = [b'x'; 6];
    let mut v: u32 = 0;
    let mut i = 0;
    while i < 5 {
        let k: usize = kani::any();
        kani::assume(k < 16);
        if i < nd { buf[1 + i] = HEX[k]; v = v * 16 + k as u32; }
        i += 1;
    }
    let src = leak(&buf[..1 + nd]);
    let mut cur = Cursor::new(src);
    match cur.advance_token() {
        Ok(tok) => {
            assert!(v <= 0xFFFF);
            assert!(tok.kind == TokenKind::Lit(LiteralKind::Hex(v as u16)));
            assert!(tok.span.offs() == 0 && tok.span.len() == 1 + nd);
        }
        Err(_) => assert!(v > 0xFFFF),
    }
}
