// inject: src/debugger/command/reader/stdin.rs
// C14: the byte -> char decoder used for piped stdin.
use super::*;

/// COMPLETE (all sequences of at most 4 bytes): never panics; a decoded char re-encodes to exactly the bytes consumed;
/// end of input before the first byte is Ok(None)
#[kani::proof]
#[kani::unwind(6)]
fn read_char_decoder_complete() {
    let b: [u8; 4] = kani::any();
    let n: usize = kani::any();
    kani::assume(n <= 4);
    let mut i = 0usize;
    let r = read_char_from_bytes(|| {
        if i < n { i += 1; Some(b[i - 1]) } else { None }
    });
    match r {
        Ok(Some(c)) => {
            let mut e = [0u8; 4];
            let s = c.encode_utf8(&mut e);
            let k = s.len();
            assert!(k == i && k <= n);
            let mut j = 0;
            while j < k { assert!(e[j] == b[j]); j += 1; }
        }
        Ok(None) => assert!(n == 0),
        Err(()) => assert!(n > 0),
    }
}
