// inject: src/parser.rs
// C01 (BOUNDED): `.stringz` escape processing, which is str/char code outside Verus reach.
use super::*;

/// reference: a single left-to-right pass; `\n \t \r \\ \"` are escapes, any other `\c` is kept as two characters, a
/// trailing backslash is kept
fn unescape_ref(b: &[u8], out: &mut [u8; 8]) -> usize {
    let mut i = 0;
    let mut o = 0;
    while i < b.len() {
        if b[i] == b'\\' {
            if i + 1 < b.len() {
                let c = b[i + 1];
                if c == b'n' { out[o] = b'\n'; o += 1; }
                else if c == b't' { out[o] = b'\t'; o += 1; }
                else if c == b'r' { out[o] = b'\r'; o += 1; }
                else if c == b'\\' { out[o] = b'\\'; o += 1; }
                else if c == b'"' { out[o] = b'"'; o += 1; }
                else { out[o] = b'\\'; out[o + 1] = c; o += 2; }
                i += 2;
            } else {
                out[o] = b'\\'; o += 1;
                i += 1;
            }
        } else {
            out[o] = b[i]; o += 1;
            i += 1;
        }
    }
    o
}

/// every string of at most 4 characters over { a, n, t, backslash, quote }
#[kani::proof]
#[kani::unwind(7)]
fn unescape_bounded() {
    const ALPHA: [u8; 5] = *b"ant\\\"";
    let len: usize = kani::any();
    kani::assume(len <= 4);
    let mut buf = [0u8; 4];
    let mut i = 0;
    while i < 4 {
        let k: usize = kani::any();
        kani::assume(k < 5);
        buf[i] = ALPHA[k];
        i += 1;
    }
    let s = unsafe { std::str::from_utf8_unchecked(&buf[..len]) };
    let got = unescape(s);
    let mut want = [0u8; 8];
    let n = unescape_ref(&buf[..len], &mut want);
    let gb = got.as_bytes();
    assert!(gb.len() == n);
    let mut j = 0;
    while j < n { assert!(gb[j] == want[j]); j += 1; }
}
