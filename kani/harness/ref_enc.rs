// Executable reference of the ISA encoding (mirrors the spec function enc_spec; proved equal to it in
// verus/units/air.rs). Used by the Kani twin emit_complete, which compares the real AsmLine::emit against it with
// exact bit-vector semantics and yields concrete counterexamples.
pub fn pcoff_ref(label_line: u16, line: u16, bits: u32) -> Option<u16> {
    // the three PC-relative field widths of the ISA and the CALL extension
    let (half, full): (i32, i32) = match bits {
        9 => (256, 512),
        10 => (512, 1024),
        11 => (1024, 2048),
        _ => return None,
    };
    let m = (label_line as i32 - line as i32 - 1).rem_euclid(0x10000);
    let d = if m >= 0x8000 { m - 0x10000 } else { m };
    if -half <= d && d < half {
        Some((if d >= 0 { d } else { d + full }) as u16)
    } else {
        None
    }
}
fn with_off_ref(base: u16, o: Option<u16>) -> Option<u16> {
    match o {
        Some(w) => Some(base | w),
        None => None,
    }
}
fn lbl_ref(l: &Label) -> u16 {
    match l {
        Label::Ref(v) => *v,
        Label::Unfilled(_) => 0,
    }
}
fn immreg_ref(x: &ImmediateOrReg) -> u16 {
    match x {
        ImmediateOrReg::Reg(r) => *r as u16,
        ImmediateOrReg::Imm5(v) => ((*v as u16) & 0x1f) | 0x20,
    }
}
fn flag_ref(f: &Flag) -> u16 {
    match f {
        Flag::N => 4,
        Flag::Z => 2,
        Flag::P => 1,
        Flag::Nz => 6,
        Flag::Zp => 3,
        Flag::Np => 5,
        Flag::Nzp => 7,
    }
}
pub fn enc_ref(s: &AirStmt, line: u16) -> Option<u16> {
    match s {
        AirStmt::Add { dest, src_reg, src_reg_imm } => Some(0x1000u16 | ((*dest as u16) << 9) | ((*src_reg as u16) << 6) | immreg_ref(src_reg_imm)),
        AirStmt::And { dest, src_reg, src_reg_imm } => Some(0x5000u16 | ((*dest as u16) << 9) | ((*src_reg as u16) << 6) | immreg_ref(src_reg_imm)),
        AirStmt::Branch { flag, dest_label } => with_off_ref(0x0000u16 | (flag_ref(flag) << 9), pcoff_ref(lbl_ref(dest_label), line, 9)),
        AirStmt::Jump { src_reg } => Some(0xC000u16 | ((*src_reg as u16) << 6)),
        AirStmt::JumbSub { dest_label } => with_off_ref(0x4800u16, pcoff_ref(lbl_ref(dest_label), line, 11)),
        AirStmt::JumpSubReg { src_reg } => Some(0x4000u16 | ((*src_reg as u16) << 6)),
        AirStmt::Load { dest, src_label } => with_off_ref(0x2000u16 | ((*dest as u16) << 9), pcoff_ref(lbl_ref(src_label), line, 9)),
        AirStmt::LoadInd { dest, src_label } => with_off_ref(0xA000u16 | ((*dest as u16) << 9), pcoff_ref(lbl_ref(src_label), line, 9)),
        AirStmt::LoadOffs { dest, src_reg, offset } => Some(0x6000u16 | ((*dest as u16) << 9) | ((*src_reg as u16) << 6) | ((*offset as u16) & 0x3f)),
        AirStmt::LoadEAddr { dest, src_label } => with_off_ref(0xE000u16 | ((*dest as u16) << 9), pcoff_ref(lbl_ref(src_label), line, 9)),
        AirStmt::Not { dest, src_reg } => Some(0x9000u16 | ((*dest as u16) << 9) | ((*src_reg as u16) << 6) | 0x3f),
        AirStmt::Return => Some(0xC1C0u16),
        AirStmt::Interrupt => Some(0x8000u16),
        AirStmt::Store { src_reg, dest_label } => with_off_ref(0x3000u16 | ((*src_reg as u16) << 9), pcoff_ref(lbl_ref(dest_label), line, 9)),
        AirStmt::StoreInd { src_reg, dest_label } => with_off_ref(0xB000u16 | ((*src_reg as u16) << 9), pcoff_ref(lbl_ref(dest_label), line, 9)),
        AirStmt::StoreOffs { src_reg, dest_reg, offset } => Some(0x7000u16 | ((*src_reg as u16) << 9) | ((*dest_reg as u16) << 6) | ((*offset as u16) & 0x3f)),
        AirStmt::Push { src_reg } => Some(0xD000u16 | 0x0400 | ((*src_reg as u16) << 6)),
        AirStmt::Pop { dest_reg } => Some(0xD000u16 | ((*dest_reg as u16) << 6)),
        AirStmt::Call { dest_label } => with_off_ref(0xD000u16 | 0x0C00, pcoff_ref(lbl_ref(dest_label), line, 10)),
        AirStmt::Rets => Some(0xD000u16 | 0x0800),
        AirStmt::RawWord { val } => Some(val.0),
        AirStmt::Trap { trap_vect } => Some(0xF000u16 | *trap_vect as u16),
    }
}
