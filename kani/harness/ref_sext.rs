// Executable reference for sign extension; proved equal to the spec function `sext` in verus/units/runtime.rs,
// used by the Kani harness s_ext_complete to discharge the contract of RunState::s_ext that Verus assumes.
fn p2_ref(n: u32) -> u32 {
    match n {
        0 => 1, 1 => 2, 2 => 4, 3 => 8, 4 => 16, 5 => 32, 6 => 64, 7 => 128, 8 => 256, 9 => 512, 10 => 1024,
        11 => 2048, 12 => 4096, 13 => 8192, 14 => 16384, 15 => 32768, _ => 65536,
    }
}
pub fn sext_ref(v: u16, bits: u32) -> u16 {
    let m = (v as u32) % p2_ref(bits);
    if m >= p2_ref(bits - 1) {
        (m + 0x10000 - p2_ref(bits)) as u16
    } else {
        m as u16
    }
}
