// inject: src/air.rs
// Kani twin of the Verus unit U-AIR: exact bit-vector semantics, concrete counterexamples.
use super::*;
use crate::symbol::SrcOffset;
include!("ref_enc.rs");

fn any_reg() -> Register {
    match kani::any::<u8>() & 7 {
        0 => Register::R0, 1 => Register::R1, 2 => Register::R2, 3 => Register::R3,
        4 => Register::R4, 5 => Register::R5, 6 => Register::R6, _ => Register::R7,
    }
}
fn any_flag() -> Flag {
    match kani::any::<u8>() % 7 {
        0 => Flag::N, 1 => Flag::Z, 2 => Flag::P, 3 => Flag::Nz, 4 => Flag::Zp, 5 => Flag::Np, _ => Flag::Nzp,
    }
}
fn any_label() -> Label { Label::Ref(kani::any()) }
fn any_immreg() -> ImmediateOrReg {
    if kani::any() { ImmediateOrReg::Reg(any_reg()) } else { ImmediateOrReg::Imm5(kani::any()) }
}
/// every statement kind, every register, every 16-bit label line, every u8 field — all labels filled (emit's precondition)
fn any_stmt() -> AirStmt {
    match kani::any::<u8>() % 22 {
        0 => AirStmt::Add { dest: any_reg(), src_reg: any_reg(), src_reg_imm: any_immreg() },
        1 => AirStmt::And { dest: any_reg(), src_reg: any_reg(), src_reg_imm: any_immreg() },
        2 => AirStmt::Branch { flag: any_flag(), dest_label: any_label() },
        3 => AirStmt::Jump { src_reg: any_reg() },
        4 => AirStmt::JumbSub { dest_label: any_label() },
        5 => AirStmt::JumpSubReg { src_reg: any_reg() },
        6 => AirStmt::Load { dest: any_reg(), src_label: any_label() },
        7 => AirStmt::LoadInd { dest: any_reg(), src_label: any_label() },
        8 => AirStmt::LoadOffs { dest: any_reg(), src_reg: any_reg(), offset: kani::any() },
        9 => AirStmt::LoadEAddr { dest: any_reg(), src_label: any_label() },
        10 => AirStmt::Not { dest: any_reg(), src_reg: any_reg() },
        11 => AirStmt::Return,
        12 => AirStmt::Interrupt,
        13 => AirStmt::Store { src_reg: any_reg(), dest_label: any_label() },
        14 => AirStmt::StoreInd { src_reg: any_reg(), dest_label: any_label() },
        15 => AirStmt::StoreOffs { src_reg: any_reg(), dest_reg: any_reg(), offset: kani::any() },
        16 => AirStmt::Push { src_reg: any_reg() },
        17 => AirStmt::Pop { dest_reg: any_reg() },
        18 => AirStmt::Call { dest_label: any_label() },
        19 => AirStmt::Rets,
        20 => AirStmt::RawWord { val: RawWord(kani::any()) },
        _ => AirStmt::Trap { trap_vect: kani::any() },
    }
}

fn check_emit(stmt: AirStmt) {
    let line: u16 = kani::any();
    let want = enc_ref(&stmt, line);
    let asm = AsmLine::new(line, stmt, Span::new(SrcOffset(0), 0));
    match (asm.emit(), want) {
        (Ok(w), Some(e)) => assert!(w == e),
        (Err(_), None) => (),
        (Ok(_), None) => assert!(false),   // out-of-range label distance silently encoded
        (Err(_), Some(_)) => assert!(false), // encodable statement rejected
    }
}
fn is_label_kind(s: &AirStmt) -> bool {
    matches!(s, AirStmt::Branch { .. } | AirStmt::JumbSub { .. } | AirStmt::Load { .. } | AirStmt::LoadInd { .. }
        | AirStmt::LoadEAddr { .. } | AirStmt::Store { .. } | AirStmt::StoreInd { .. } | AirStmt::Call { .. })
}
/// COMPLETE (loop-free, full domain), split in two for parallelism: the 14 statement kinds without a label operand
#[kani::proof]
fn emit_complete_plain() {
    let stmt = any_stmt();
    kani::assume(!is_label_kind(&stmt));
    check_emit(stmt);
}
/// ... and the 8 kinds with a PC-relative label operand: every (line, label line) pair in 65536 x 65536
#[kani::proof]
fn emit_complete_labels() {
    let stmt = any_stmt();
    kani::assume(is_label_kind(&stmt));
    check_emit(stmt);
}

/// COMPLETE (loop-free, full domain): opcode facts of the encoding used by the Verus lemma lemma_enc_opcode (U-EVAL)
#[kani::proof]
fn enc_opcode_complete() {
    let st = any_stmt();
    let line: u16 = kani::any();
    if matches!(st, AirStmt::RawWord { .. }) { return; }
    if let Some(w) = enc_ref(&st, line) {
        let op = w >> 12;
        let stack_kind = matches!(st, AirStmt::Push { .. } | AirStmt::Pop { .. } | AirStmt::Call { .. } | AirStmt::Rets);
        assert!((op == 13) == stack_kind);
        match st {
            AirStmt::Trap { trap_vect } => assert!(op == 15 && (w & 0xFF) == trap_vect as u16),
            _ => assert!(op != 15),
        }
    }
}
