// inject: src/runtime.rs
// Kani harnesses living as a child module of src/runtime.rs (they see private items; bodies are the working tree's).
use super::*;
include!("ref_sext.rs");

/// COMPLETE (loop-free, full domain): RunState::s_ext == sext_ref for every u16 and every width 1..=15
#[kani::proof]
fn s_ext_complete() {
    let v: u16 = kani::any();
    let bits: u32 = kani::any();
    kani::assume(bits > 0 && bits < 16);
    let got = RunState::s_ext(v, bits);
    let want = sext_ref(v, bits);
    assert!(got == want);
}

