// Executable reference of the instruction-step oracle step_spec (proved equal to it in verus/units/runtime.rs); used by the
// native differential enumeration verif_native_execute to attach concrete failing inputs to C02.
pub struct RefState {
    pub reg: [u16; 8],
    pub mem: Vec<u16>,
    pub pc: u16,
    pub cc: u16,
}
pub enum RefStep {
    Next,
    Exit(i32),
    Unspecified,
}
fn ref_cc(v: u16) -> u16 {
    if v >= 0x8000 { 4 } else if v == 0 { 2 } else { 1 }
}
fn ref_set_reg_cc(s: &mut RefState, dr: u16, v: u16) {
    s.reg[dr as usize] = v;
    s.cc = ref_cc(v);
}
pub fn step_ref(s: &mut RefState, i: u16, stack_on: bool) -> RefStep {
    let op = i >> 12;
    let dr = (i >> 9) & 7;
    let sr1 = (i >> 6) & 7;
    if op == 0 {
        if s.cc & ((i >> 9) & 7) != 0 { s.pc = s.pc.wrapping_add(sext_ref(i, 9)); }
    } else if op == 1 || op == 5 {
        let b = if i & 0x20 == 0 { s.reg[(i & 7) as usize] } else { sext_ref(i, 5) };
        let a = s.reg[sr1 as usize];
        let v = if op == 1 { a.wrapping_add(b) } else { a & b };
        ref_set_reg_cc(s, dr, v);
    } else if op == 2 {
        let v = s.mem[s.pc.wrapping_add(sext_ref(i, 9)) as usize];
        ref_set_reg_cc(s, dr, v);
    } else if op == 3 {
        let a = s.pc.wrapping_add(sext_ref(i, 9));
        let v = s.reg[dr as usize];
        s.mem[a as usize] = v;
    } else if op == 4 {
        let link = s.pc;
        let target = if i & 0x800 == 0 { s.reg[sr1 as usize] } else { s.pc.wrapping_add(sext_ref(i, 11)) };
        s.reg[7] = link;
        s.pc = target;
    } else if op == 6 {
        let v = s.mem[s.reg[sr1 as usize].wrapping_add(sext_ref(i, 6)) as usize];
        ref_set_reg_cc(s, dr, v);
    } else if op == 7 {
        let a = s.reg[sr1 as usize].wrapping_add(sext_ref(i, 6));
        let v = s.reg[dr as usize];
        s.mem[a as usize] = v;
    } else if op == 8 {
        return RefStep::Unspecified;
    } else if op == 9 {
        let v = !s.reg[sr1 as usize];
        ref_set_reg_cc(s, dr, v);
    } else if op == 10 {
        let p = s.mem[s.pc.wrapping_add(sext_ref(i, 9)) as usize];
        let v = s.mem[p as usize];
        ref_set_reg_cc(s, dr, v);
    } else if op == 11 {
        let p = s.mem[s.pc.wrapping_add(sext_ref(i, 9)) as usize];
        let v = s.reg[dr as usize];
        s.mem[p as usize] = v;
    } else if op == 12 {
        s.pc = s.reg[sr1 as usize];
    } else if op == 13 {
        if !stack_on { return RefStep::Exit(1); }
        if i & 0x0800 != 0 {
            if i & 0x0400 != 0 {
                let sp = s.reg[7].wrapping_sub(1);
                s.reg[7] = sp;
                s.mem[sp as usize] = s.pc;
                s.pc = s.pc.wrapping_add(sext_ref(i, 10));
            } else {
                let v = s.mem[s.reg[7] as usize];
                s.reg[7] = s.reg[7].wrapping_add(1);
                s.pc = v;
            }
        } else if i & 0x0400 != 0 {
            let v = s.reg[sr1 as usize];
            let sp = s.reg[7].wrapping_sub(1);
            s.reg[7] = sp;
            s.mem[sp as usize] = v;
        } else {
            let v = s.mem[s.reg[7] as usize];
            s.reg[7] = s.reg[7].wrapping_add(1);
            s.reg[sr1 as usize] = v;
        }
    } else if op == 14 {
        let v = s.pc.wrapping_add(sext_ref(i, 9));
        ref_set_reg_cc(s, dr, v);
    } else {
        let v = i & 0xFF;
        if !(0x20 <= v && v <= 0x27) { return RefStep::Exit(0xEE); }
        if v == 0x25 { s.pc = 0xFFFF; } else if v == 0x20 || v == 0x23 { return RefStep::Unspecified; }
    }
    RefStep::Next
}
