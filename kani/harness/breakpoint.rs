// inject: src/debugger/breakpoint.rs
// BOUNDED Kani twin of the Verus unit U-BP (lists of at most 3 breakpoints): never counted as proof; its job is to
// attach a concrete counterexample when the list operations are rewritten in a way Verus cannot follow.
use super::*;

fn any_sorted(n: usize) -> Breakpoints {
    let a: u16 = kani::any();
    let b: u16 = kani::any();
    let c: u16 = kani::any();
    kani::assume(a < b && b < c);
    let all = [a, b, c];
    let mut v = Vec::new();
    let mut i = 0;
    while i < n {
        v.push(Breakpoint { address: all[i], is_predefined: kani::any() });
        i += 1;
    }
    Breakpoints(v)
}
fn has(bps: &Breakpoints, a: u16) -> bool {
    let mut i = 0;
    let mut found = false;
    while i < bps.0.len() {
        if bps.0[i].address == a { found = true; }
        i += 1;
    }
    found
}
fn sorted(bps: &Breakpoints) -> bool {
    let mut i = 1;
    let mut ok = true;
    while i < bps.0.len() {
        if bps.0[i - 1].address >= bps.0[i].address { ok = false; }
        i += 1;
    }
    ok
}

#[kani::proof]
#[kani::unwind(6)]
fn bp_get_bounded() {
    let n: usize = kani::any();
    kani::assume(n <= 3);
    let bps = any_sorted(n);
    let a: u16 = kani::any();
    match bps.get(a) {
        Some(b) => assert!(b.address == a && has(&bps, a)),
        None => assert!(!has(&bps, a)),
    }
}

// (no harness for Breakpoints::insert: Vec::insert's memmove is intractable for CBMC even with 2 entries — >20 min;
//  insert is covered by the Verus proof only)

#[kani::proof]
#[kani::unwind(6)]
fn bp_remove_bounded() {
    let n: usize = kani::any();
    kani::assume(n <= 3);
    let mut bps = any_sorted(n);
    let before = bps.clone();
    let a: u16 = kani::any();
    let probe: u16 = kani::any();
    let removed = bps.remove(a);
    assert!(removed == has(&before, a));
    assert!(sorted(&bps));
    assert!(has(&bps, probe) == (has(&before, probe) && probe != a));
}
