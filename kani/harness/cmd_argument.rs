// inject: src/debugger/command/reader/argument.rs
// C14: `--command` argument splitting on ';' and newline.
use super::*;

/// BOUNDED: all strings of at most 3 characters over { 'a', ';', '\n' }: successive reads return exactly the
/// segments between delimiters (a trailing delimiter does not produce an extra empty command), never panic
#[kani::proof]
#[kani::unwind(6)]
fn argument_read_split_bounded() {
    const ALPHA: [u8; 3] = *b"a;\n";
    let len: usize = kani::any();
    kani::assume(len <= 3);
    let mut buf = [0u8; 3];
    let mut i = 0;
    while i < 3 {
        let k: usize = kani::any();
        kani::assume(k < 3);
        buf[i] = ALPHA[k];
        i += 1;
    }
    let s = unsafe { std::str::from_utf8_unchecked(&buf[..len]) };
    let mut arg = Argument::from(String::from(s));
    // reference: walk the bytes
    let mut start = 0usize;
    let mut reads = 0;
    while reads < 5 {
        match arg.read() {
            None => { assert!(start >= len); break; }
            Some(cmd) => {
                assert!(start < len);
                let mut end = start;
                while end < len && buf[end] != b';' && buf[end] != b'\n' { end += 1; }
                assert!(cmd.len() == end - start);
                let cb = cmd.as_bytes();
                let mut j = 0;
                while j < cb.len() { assert!(cb[j] == buf[start + j]); j += 1; }
                start = end + 1;
            }
        }
        reads += 1;
    }
}
