// inject: src/debugger/command/reader/terminal.rs
// C20 (BOUNDED): the line editor's cursor arithmetic on short lines with multi-byte characters.
// char::is_whitespace / char::is_alphanumeric walk Unicode tables (intractable for CBMC); they are stubbed by predicates
// that are EXACT on the harness alphabet { a, space, +, é, 🍋 } — an assumption listed in the evidence.
use super::*;

fn stub_is_whitespace(c: char) -> bool { c == ' ' }
fn stub_is_alphanumeric(c: char) -> bool { c == 'a' || c == 'é' }

const LINES: [&str; 14] = ["", "a", "é", "🍋", " ", "a é", "é+a", "🍋 a", "ééé", "a 🍋", "+é ", "  é", "é🍋", "🍋+🍋"];
const COUNTS: [usize; 14] = [0, 1, 1, 1, 1, 3, 3, 3, 3, 3, 3, 3, 2, 3];

fn check_next(line: &str, count: usize) {
    let cursor: usize = kani::any();
    kani::assume(cursor <= count);
    let next = find_word_next(line, cursor, kani::any());
    assert!(next <= count);
    assert!(next >= cursor);
}
fn check_back(line: &str, count: usize) {
    let cursor: usize = kani::any();
    kani::assume(cursor <= count);
    let back = find_word_back(line, cursor, kani::any());
    assert!(back <= cursor);
}

/// 14 fixed lines (concrete) x every cursor position x both word modes:
/// find_word_next returns a CHARACTER index inside the line (0..=number of characters), not before the cursor
#[kani::proof]
#[kani::unwind(8)]
#[kani::stub(char::is_whitespace, stub_is_whitespace)]
#[kani::stub(char::is_alphanumeric, stub_is_alphanumeric)]
fn word_next_bounds_bounded() {
    check_next(LINES[0], COUNTS[0]); check_next(LINES[1], COUNTS[1]); check_next(LINES[2], COUNTS[2]);
    check_next(LINES[3], COUNTS[3]); check_next(LINES[4], COUNTS[4]); check_next(LINES[5], COUNTS[5]);
    check_next(LINES[6], COUNTS[6]); check_next(LINES[7], COUNTS[7]); check_next(LINES[8], COUNTS[8]);
    check_next(LINES[9], COUNTS[9]); check_next(LINES[10], COUNTS[10]); check_next(LINES[11], COUNTS[11]);
    check_next(LINES[12], COUNTS[12]); check_next(LINES[13], COUNTS[13]);
}

/// same lines: find_word_back returns a character index not after the cursor
#[kani::proof]
#[kani::unwind(8)]
#[kani::stub(char::is_whitespace, stub_is_whitespace)]
#[kani::stub(char::is_alphanumeric, stub_is_alphanumeric)]
fn word_back_bounds_bounded() {
    check_back(LINES[0], COUNTS[0]); check_back(LINES[1], COUNTS[1]); check_back(LINES[2], COUNTS[2]);
    check_back(LINES[3], COUNTS[3]); check_back(LINES[4], COUNTS[4]); check_back(LINES[5], COUNTS[5]);
    check_back(LINES[6], COUNTS[6]); check_back(LINES[7], COUNTS[7]); check_back(LINES[8], COUNTS[8]);
    check_back(LINES[9], COUNTS[9]); check_back(LINES[10], COUNTS[10]); check_back(LINES[11], COUNTS[11]);
    check_back(LINES[12], COUNTS[12]); check_back(LINES[13], COUNTS[13]);
}

/// count_chars_bytes: byte offset of the i-th character (or the byte length past the end) and the character count
#[kani::proof]
#[kani::unwind(14)]
fn count_chars_bytes_bounded() {
    let k: usize = kani::any();
    kani::assume(k < 14);
    let line = LINES[k];
    let idx: usize = kani::any();
    kani::assume(idx <= 4);
    let (byte_index, char_count) = count_chars_bytes(line, idx);
    assert!(char_count == COUNTS[k]);
    assert!(line.is_char_boundary(byte_index));
    if idx >= COUNTS[k] { assert!(byte_index == line.len()); }
}
