// inject: src/debugger/command/parse/integer.rs
// C14: integer argument syntax of the debugger command language.
use super::*;

fn ascii_str(bytes: &[u8]) -> &str {
    // all callers constrain every byte to < 128, so this is valid UTF-8
    unsafe { std::str::from_utf8_unchecked(bytes) }
}

/// COMPLETE (loop-free, all i32): the narrowing conversions accept exactly their range; negatives cast as two's complement
#[kani::proof]
fn int_conversions_complete() {
    let v: i32 = kani::any();
    let i = Integer::from(v);
    match i.as_i16() { Ok(x) => assert!(v >= -32768 && v <= 32767 && x as i32 == v), Err(_) => assert!(v < -32768 || v > 32767) }
    match i.as_u16() { Ok(x) => assert!(v >= 0 && v <= 65535 && x as i32 == v), Err(_) => assert!(v < 0 || v > 65535) }
    match i.as_u16_cast() {
        Ok(x) => assert!(v >= -32768 && v <= 65535 && x == (v as u16)),
        Err(_) => assert!(v < -32768 || v > 65535),
    }
}

/// COMPLETE (all chars x 4 radices): digit values
#[kani::proof]
fn radix_parse_digit_complete() {
    let ch: char = kani::any();
    let radix = match kani::any::<u8>() & 3 { 0 => Radix::Binary, 1 => Radix::Octal, 2 => Radix::Decimal, _ => Radix::Hex };
    let base = radix as u32;
    let want = if ch.is_ascii_digit() { Some(ch as u32 - '0' as u32) }
        else if ch >= 'a' && ch <= 'f' { Some(ch as u32 - 'a' as u32 + 10) }
        else if ch >= 'A' && ch <= 'F' { Some(ch as u32 - 'A' as u32 + 10) }
        else { None };
    let want = match want { Some(d) if d < base => Some(d as u8), _ => None };
    assert!(radix.parse_digit(ch) == want);
}

/// reference of the documented grammar on ASCII bytes:  sign? ( "0" | ("0"? prefix | <digit-start>) sign? digits )
/// result: 0 = Ok(None) (not an integer), 1 = Err, 2 = Ok(Some(value))
fn int_ref(b: &[u8], require_sign: bool) -> (u8, i64) {
    let n = b.len();
    if n == 0 { return (0, 0); }
    let mut i = 0;
    let mut sign: i64 = 0;
    if b[i] == b'+' { sign = 1; i += 1; } else if b[i] == b'-' { sign = -1; i += 1; }
    if require_sign && sign == 0 { return (1, 0); }
    let mut zero = false;
    if i < n && b[i] == b'0' { zero = true; i += 1; }
    let radix: i64;
    if i >= n {
        if zero { return (2, 0); }
        return if sign != 0 { (1, 0) } else { (0, 0) };
    }
    let c = b[i];
    if c == b'b' || c == b'B' { radix = 2; i += 1; }
    else if c == b'o' || c == b'O' { radix = 8; i += 1; }
    else if c == b'x' || c == b'X' { radix = 16; i += 1; }
    else if c == b'#' { if zero { return (1, 0); } radix = 10; i += 1; }
    else if c >= b'0' && c <= b'9' { radix = 10; }
    else if c == b'-' || c == b'+' { return (1, 0); }
    else { return if zero || sign != 0 { (1, 0) } else { (0, 0) }; }
    let implicit_or_decimal = radix == 10;
    if i < n && (b[i] == b'+' || b[i] == b'-') {
        if sign != 0 { return (1, 0); }
        sign = if b[i] == b'+' { 1 } else { -1 };
        i += 1;
    }
    let invalid_is_err = sign != 0 || zero || implicit_or_decimal;
    if i >= n { return if invalid_is_err { (1, 0) } else { (0, 0) }; }
    let mut v: i64 = 0;
    while i < n {
        let c = b[i];
        let d: i64 = if c >= b'0' && c <= b'9' { (c - b'0') as i64 }
            else if c >= b'a' && c <= b'f' { (c - b'a') as i64 + 10 }
            else if c >= b'A' && c <= b'F' { (c - b'A') as i64 + 10 }
            else { 99 };
        if d >= radix { return if invalid_is_err { (1, 0) } else { (0, 0) }; }
        v = v * radix + d;
        if v > i32::MAX as i64 { return (1, 0); }   // out of bounds for i32: an error, never a panic
        i += 1;
    }
    (2, if sign < 0 { -v } else { v })
}

fn check_against_ref(bytes: &[u8], require_sign: bool) {
    let s = ascii_str(bytes);
    let got = parse_integer(s, require_sign);      // must not panic
    let (cls, val) = int_ref(bytes, require_sign);
    match got {
        Ok(None) => assert!(cls == 0),
        Err(_) => assert!(cls == 1),
        Ok(Some(i)) => assert!(cls == 2 && *i as i64 == val),
    }
}

/// BOUNDED: every string of at most 4 characters over the alphabet of the property statement
/// (signs, radix prefixes, digits, hex letters, a non-digit, '#', '^', 'r', '_')
#[kani::proof]
#[kani::unwind(7)]
fn parse_integer_alphabet4_bounded() {
    const ALPHA: [u8; 16] = *b"+-0179#xXobBfFg_";
    let len: usize = kani::any();
    kani::assume(len <= 4);
    let mut buf = [0u8; 4];
    let mut i = 0;
    while i < 4 {
        let k: usize = kani::any();
        kani::assume(k < 16);
        buf[i] = ALPHA[k];
        i += 1;
    }
    check_against_ref(&buf[..len], kani::any());
}

/// BOUNDED: optional sign + 9..=10 decimal digits — reaches and crosses the i32 boundary (2147483647 / 2147483648)
#[kani::proof]
#[kani::unwind(13)]
fn parse_integer_decimal10_bounded() {
    let mut buf = [b'0'; 11];
    let signed: bool = kani::any();
    let ndig: usize = kani::any();
    kani::assume(ndig == 9 || ndig == 10);
    let start = if signed { buf[0] = if kani::any() { b'-' } else { b'+' }; 1 } else { 0 };
    let mut i = 0;
    while i < 10 {
        let d: u8 = kani::any();
        kani::assume(d < 10);
        if i < ndig { buf[start + i] = b'0' + d; }
        i += 1;
    }
    kani::assume(buf[start] != b'0');
    check_against_ref(&buf[..start + ndig], false);
}
