//! Minimal stand-in for the parts of miette used by lace's library target.
use std::fmt;
#[derive(Debug, Clone, Copy, PartialEq, Eq)]
pub enum Severity { Advice, Warning, Error }
#[derive(Debug, Clone, Copy, PartialEq, Eq)]
pub struct SourceOffset(pub usize);
impl From<usize> for SourceOffset { fn from(v: usize) -> Self { SourceOffset(v) } }
#[derive(Debug, Clone, Copy, PartialEq, Eq)]
pub struct SourceSpan { pub offset: usize, pub len: usize }
impl SourceSpan { pub fn new(start: SourceOffset, len: usize) -> Self { SourceSpan { offset: start.0, len } } }
#[derive(Debug, Clone, Copy)]
pub struct LabeledSpan { pub span: SourceSpan }
impl LabeledSpan {
    pub fn at(span: impl Into<SourceSpan>, _label: impl Into<String>) -> Self { LabeledSpan { span: span.into() } }
    pub fn at_offset(offset: usize, _label: impl Into<String>) -> Self { LabeledSpan { span: SourceSpan { offset, len: 0 } } }
}
pub struct Report { pub labels: Vec<LabeledSpan>, pub has_source: bool }
impl Report {
    pub fn stub(labels: Vec<LabeledSpan>) -> Self { Report { labels, has_source: false } }
    pub fn msg(_m: impl fmt::Display) -> Self { Report { labels: Vec::new(), has_source: false } }
    pub fn with_source_code(mut self, _src: impl AsRef<str>) -> Self { self.has_source = true; self }
}
impl fmt::Debug for Report { fn fmt(&self, f: &mut fmt::Formatter<'_>) -> fmt::Result { f.write_str("Report") } }
impl fmt::Display for Report { fn fmt(&self, f: &mut fmt::Formatter<'_>) -> fmt::Result { f.write_str("Report") } }
pub type Result<T, E = Report> = core::result::Result<T, E>;
#[doc(hidden)] pub fn __labels_default() -> Vec<LabeledSpan> { Vec::new() }
#[macro_export]
macro_rules! miette {
    (@acc [$($labels:expr)?] labels = $value:expr, $($rest:tt)*) => { $crate::miette!(@acc [$value] $($rest)*) };
    (@acc [$($labels:expr)?] $key:ident = $value:expr, $($rest:tt)*) => { { let _ = &$value; $crate::miette!(@acc [$($labels)?] $($rest)*) } };
    (@acc [$labels:expr] $fmt:literal $($arg:tt)*) => { $crate::Report::stub($labels) };
    (@acc [] $fmt:literal $($arg:tt)*) => { $crate::Report::stub($crate::__labels_default()) };
    ($($all:tt)*) => { $crate::miette!(@acc [] $($all)*) };
}
#[macro_export]
macro_rules! bail { ($($all:tt)*) => { return ::core::result::Result::Err($crate::miette!($($all)*)) }; }
pub trait IntoDiagnostic<T> { fn into_diagnostic(self) -> Result<T>; }
impl<T, E: fmt::Display> IntoDiagnostic<T> for core::result::Result<T, E> { fn into_diagnostic(self) -> Result<T> { self.map_err(|e| Report::msg(e)) } }
