"""Minimal Rust-aware source scanning used by the extractor.

Nothing here parses Rust properly; it only needs to
  * know which characters are code (not comment / string / char literal),
  * match brackets over code characters,
  * find items by kind+name at a given nesting level,
  * split a fn item into attributes / signature / body,
  * find macro invocations `name!( ... )`.
Every failure to find something raises ExtractError, which the runner reports as an
*engine failure* (exit 2), never as a property violation.
"""
import re


class ExtractError(Exception):
    pass


def code_mask(text):
    """mask[i] == 1 iff text[i] is code (outside comments, string/char literals)."""
    n = len(text)
    mask = bytearray(n)
    i = 0
    while i < n:
        c = text[i]
        two = text[i:i + 2]
        if two == '//':
            j = text.find('\n', i)
            if j < 0:
                j = n
            i = j
            continue
        if two == '/*':
            depth = 1
            j = i + 2
            while j < n and depth:
                if text[j:j + 2] == '/*':
                    depth += 1
                    j += 2
                elif text[j:j + 2] == '*/':
                    depth -= 1
                    j += 2
                else:
                    j += 1
            i = j
            continue
        if c == '"' or (c in 'br' and re.match(r'(b?r#*"|b")', text[i:i + 8]) and (i == 0 or not (text[i - 1].isalnum() or text[i - 1] == '_'))):
            m = re.match(r'b?r(#*)"', text[i:])
            if m and c != '"':
                hashes = m.group(1)
                end = text.find('"' + hashes, i + len(m.group(0)))
                if end < 0:
                    raise ExtractError('unterminated raw string')
                i = end + 1 + len(hashes)
                continue
            # ordinary (possibly b-prefixed) string
            j = i + (2 if c == 'b' else 1)
            while j < n and text[j] != '"':
                if text[j] == '\\':
                    j += 1
                j += 1
            i = j + 1
            continue
        if c == "'":
            # char literal or lifetime
            m = re.match(r"'(\\x[0-9a-fA-F]{2}|\\u\{[0-9a-fA-F_]+\}|\\.|[^\\'])'", text[i:])
            if m:
                i += len(m.group(0))
                continue
            # lifetime: tick is code
            mask[i] = 1
            i += 1
            continue
        mask[i] = 1
        i += 1
    return mask


OPEN = {'(': ')', '[': ']', '{': '}'}
CLOSE = {')': '(', ']': '[', '}': '{'}


def match_close(text, mask, i):
    """text[i] is an opening bracket (code); return index of its matching closer."""
    assert text[i] in OPEN, (text[i], i)
    stack = []
    n = len(text)
    j = i
    while j < n:
        if mask[j]:
            c = text[j]
            if c in OPEN:
                stack.append(c)
            elif c in CLOSE:
                if not stack or stack[-1] != CLOSE[c]:
                    raise ExtractError('unbalanced bracket at %d' % j)
                stack.pop()
                if not stack:
                    return j
        j += 1
    raise ExtractError('no closing bracket for %d' % i)


ITEM_RE = re.compile(
    r'(?:pub(?:\s*\([^)]*\))?\s+)?(?:(?:const|unsafe|async|default)\s+)*'
    r'(fn|enum|struct|const|static|impl|mod|type|trait|macro_rules!|use|thread_local!)\b')


class Item:
    def __init__(self, kind, name, header, start, hstart, body_open, end):
        self.kind = kind        # fn/enum/struct/...
        self.name = name        # identifier, or normalised impl header for impl
        self.header = header    # text from keyword-start up to body_open / ';'
        self.start = start      # start incl. attributes and doc comments
        self.hstart = hstart    # start of header (after attributes)
        self.body_open = body_open  # index of '{' or None
        self.end = end          # index one past the item's last char


def norm_ws(s):
    return re.sub(r'\s+', ' ', s).strip()


def _leading_attrs_start(text, mask, pos, lo):
    """Walk back from pos over attribute and doc-comment lines; return the start offset."""
    line_start = text.rfind('\n', lo, pos) + 1
    if text[line_start:pos].strip():
        return pos
    start = line_start
    while start > lo:
        prev_end = start - 1
        prev_start = text.rfind('\n', lo, prev_end) + 1
        line = text[prev_start:prev_end].strip()
        if line.startswith('///') or line.startswith('#['):
            start = prev_start
            continue
        if line.endswith(')]'):
            # tail of a multi-line attribute: find the line that opens it
            k = prev_start
            found = None
            while k > lo:
                pe = k - 1
                ps = text.rfind('\n', lo, pe) + 1
                l2 = text[ps:pe].strip()
                if l2.startswith('#['):
                    found = ps
                    break
                if l2.endswith(';') or l2.endswith('}'):
                    break
                k = ps
            if found is not None:
                start = found
                continue
        break
    return start


def items(text, mask=None, lo=0, hi=None):
    """Yield the items directly inside text[lo:hi] (a file, or an impl/mod body)."""
    if mask is None:
        mask = code_mask(text)
    if hi is None:
        hi = len(text)
    i = lo
    out = []
    while i < hi:
        if not mask[i] or text[i].isspace():
            i += 1
            continue
        if text[i] == '#':
            # attribute: skip `#[...]` / `#![...]`
            j = i + 1
            if j < hi and text[j] == '!':
                j += 1
            if j < hi and text[j] == '[':
                i = match_close(text, mask, j) + 1
                continue
        m = ITEM_RE.match(text, i)
        if not m or m.start() != i:
            # unknown token at item level: skip to next ';' or balanced block
            j = i
            while j < hi and not (mask[j] and text[j] in ';{'):
                j += 1
            if j < hi and text[j] == '{':
                j = match_close(text, mask, j)
            i = j + 1
            continue
        kind = m.group(1)
        kwpos = m.start(1)
        # find end of header: first code '{' or ';' at bracket depth 0 (parens/brackets/angle ignored: use () and [] only)
        j = m.end()
        depth = 0
        body_open = None
        while j < hi:
            if mask[j]:
                c = text[j]
                if c in '([':
                    depth += 1
                elif c in ')]':
                    depth -= 1
                elif depth == 0 and c == '{':
                    body_open = j
                    break
                elif depth == 0 and c == ';':
                    break
            j += 1
        if j >= hi:
            raise ExtractError('item without end at %d' % i)
        if body_open is not None:
            end = match_close(text, mask, body_open) + 1
            if kind in ('struct',) and False:
                pass
        else:
            end = j + 1
        # tuple struct `struct X(..);` handled by ';' branch. thread_local!{..} / macro_rules! name {..}
        header = text[i:(body_open if body_open is not None else j)]
        if kind == 'impl':
            name = norm_ws(text[kwpos:(body_open if body_open is not None else j)])
        elif kind in ('macro_rules!', 'thread_local!', 'use'):
            name = norm_ws(header)
        else:
            m2 = re.match(r'\s*([A-Za-z_][A-Za-z0-9_]*)', text[m.end():])
            name = m2.group(1) if m2 else ''
        start = _leading_attrs_start(text, mask, i, lo)
        out.append(Item(kind, name, header, start, i, body_open, end))
        # `const X: T = { ... };` : a const with a block initialiser — swallow trailing ';'
        i = end
        if kind in ('const', 'static') and body_open is not None:
            k = i
            while k < hi and text[k].isspace():
                k += 1
            if k < hi and text[k] == ';':
                out[-1].end = k + 1
                i = k + 1
    return out


def find_item(text, mask, kind, name, lo=0, hi=None, nth=0):
    found = [it for it in items(text, mask, lo, hi) if it.kind == kind and it.name == name]
    if len(found) <= nth:
        raise ExtractError('item not found: %s %s (found %d)' % (kind, name, len(found)))
    return found[nth]


def find_in_impl(text, mask, impl_header, kind, name):
    """Find `kind name` inside any impl block whose normalised header equals impl_header."""
    cands = [it for it in items(text, mask) if it.kind == 'impl' and it.name == norm_ws(impl_header)]
    if not cands:
        raise ExtractError('impl block not found: %s' % impl_header)
    hits = []
    for blk in cands:
        for it in items(text, mask, blk.body_open + 1, blk.end - 1):
            if it.kind == kind and it.name == name:
                hits.append(it)
    if len(hits) != 1:
        raise ExtractError('%s %s in `%s`: expected 1 match, found %d' % (kind, name, impl_header, len(hits)))
    return hits[0]


def split_fn(text, mask, it):
    """Return (attrs_and_docs, signature, body_with_braces)."""
    if it.kind != 'fn' or it.body_open is None:
        raise ExtractError('not a fn with body: %s' % it.name)
    return text[it.start:it.hstart], text[it.hstart:it.body_open], text[it.body_open:it.end]


def find_macros(text, mask, names):
    """Yield (start, end, name, args_text, delim) for each code occurrence of name!(...)"""
    out = []
    pat = re.compile(r'\b(' + '|'.join(re.escape(n) for n in names) + r')!\s*([\(\[\{])')
    for m in pat.finditer(text):
        if not mask[m.start()]:
            continue
        op = m.end() - 1
        cl = match_close(text, mask, op)
        out.append((m.start(), cl + 1, m.group(1), text[op + 1:cl], text[op]))
    return out


def split_top_commas(s):
    """Split macro argument text at top-level commas (code-aware)."""
    mask = code_mask(s)
    parts = []
    depth = 0
    last = 0
    for i, c in enumerate(s):
        if not mask[i]:
            continue
        if c in '([{':
            depth += 1
        elif c in ')]}':
            depth -= 1
        elif c == ',' and depth == 0:
            parts.append(s[last:i])
            last = i + 1
    parts.append(s[last:])
    return parts
