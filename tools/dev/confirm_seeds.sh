#!/bin/bash
# confirm each seeded change: demo passes on clean tree, tests pass with patch, demo fails with patch
WT=/tmp/wt-verify
cd $WT && git checkout -q --detach $(git -C /repo rev-parse HEAD) && git checkout -- . 
for d in "$@"; do
  name=$(basename $d)
  cd $WT && git checkout -- . && git clean -fdq -e target && sleep 1 && find src tests -name '*.rs' -exec touch {} +
  if ! git apply --check $d/patch.diff 2>/dev/null; then echo "$name: PATCH-DOES-NOT-APPLY"; continue; fi
  bash $d/demo.sh $WT < /dev/null > /tmp/vp1/confirm-$name-clean.log 2>&1; c0=$?
  git apply $d/patch.diff && sleep 1 && find src tests -name '*.rs' -exec touch {} +
  cargo test --offline > /tmp/vp1/confirm-$name-test.log 2>&1; t=$?
  passed=$(grep -h "test result" /tmp/vp1/confirm-$name-test.log | awk '{s+=$4} END {print s}')
  bash $d/demo.sh $WT < /dev/null > /tmp/vp1/confirm-$name-patched.log 2>&1; c1=$?
  git checkout -- . 
  echo "$name: demo_clean=$c0 tests_rc=$t tests_passed=$passed demo_patched=$c1"
done
