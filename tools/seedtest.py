#!/usr/bin/env python3
"""Run the registered quick check of a seeded change's property with the change applied to /repo, then undo it.
usage: tools/seedtest.py seeded/<name> [...]"""
import json, os, subprocess, sys, time
VERIF = os.path.dirname(os.path.dirname(os.path.abspath(__file__)))
for d in sys.argv[1:]:
    d = d.rstrip('/')
    meta = json.load(open(os.path.join(d, 'meta.json')))
    import re as _re
    pid = _re.search(r'C\d+', str(meta['property'])).group(0)
    st = subprocess.run(['git', '-C', '/repo', 'status', '--porcelain', '--untracked-files=no'], capture_output=True, text=True).stdout.strip()
    if st:
        print('refusing: /repo has local changes'); sys.exit(2)
    ap = subprocess.run(['git', '-C', '/repo', 'apply', os.path.abspath(os.path.join(d, 'patch.diff'))], capture_output=True, text=True)
    if ap.returncode != 0:
        print('%s: patch does not apply: %s' % (d, ap.stderr[:200])); continue
    t0 = time.time()
    evp = os.path.join(VERIF, 'evidence', pid + '.json')
    saved = open(evp).read() if os.path.exists(evp) else None
    try:
        r = subprocess.run([os.path.join(VERIF, 'check'), pid], capture_output=True, text=True, cwd=VERIF)
    finally:
        subprocess.run(['git', '-C', '/repo', 'checkout', '--', '.'])
        # the evidence file now describes the MUTATED tree: put the clean-tree record back
        if saved is not None:
            open(evp, 'w').write(saved)
    lines = [l for l in r.stdout.split('\n') if l.startswith(('VIOLATION', 'UNDECIDED', 'OK ', 'VIOLATED', 'KNOWN', '  failed'))]
    res = {'seed': os.path.basename(d), 'property': pid, 'check_rc': r.returncode, 'detected': r.returncode == 1,
           'report': lines[:12], 'wall_s': round(time.time() - t0, 1)}
    json.dump(res, open(os.path.join(d, 'check_result.json'), 'w'), indent=1)
    print('%s: rc=%d %s' % (os.path.basename(d), r.returncode, 'DETECTED' if r.returncode == 1 else ('UNDECIDED' if r.returncode == 2 else 'MISSED')))
    for l in lines[:6]:
        print('    ' + l[:220])
