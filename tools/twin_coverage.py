#!/usr/bin/env python3
"""Experiment (not a registered check): which seeded changes are still detected when the Verus units are ignored, i.e. by the
engines that survive refactoring (engine N, optionally Kani)?   usage: tools/twin_coverage.py [--kani] seeded/<name> ..."""
import json, os, re, subprocess, sys
VERIF = os.path.dirname(os.path.dirname(os.path.abspath(__file__)))
WT = '/tmp/wt-twin'
os.environ['VERIF_REPO'] = WT
sys.path.insert(0, os.path.join(VERIF, 'tools'))
import nx_run, kx_run, props as P
args = sys.argv[1:]
kani = '--kani' in args
args = [a for a in args if a != '--kani']
subprocess.run(['git', '-C', '/repo', 'worktree', 'remove', '--force', WT], capture_output=True)
subprocess.run(['git', '-C', '/repo', 'worktree', 'add', '-q', '--detach', WT, 'HEAD'], check=True)
try:
    for d in args:
        d = os.path.abspath(d.rstrip('/'))
        pid = re.search(r'C\d+', str(json.load(open(os.path.join(d, 'meta.json')))['property'])).group(0)
        subprocess.run(['git', '-C', WT, 'checkout', '--', '.'])
        if subprocess.run(['git', '-C', WT, 'apply', os.path.join(d, 'patch.diff')]).returncode != 0:
            print(os.path.basename(d), 'patch does not apply'); continue
        res = []
        if P.PROPS[pid].get('native'):
            for r in nx_run.run_tests(pid, 'quick'):
                res.append(('N:' + r['test'].replace('verif_native_', ''), r['status'], (r.get('failures') or [{}])[0].get('text', r.get('reason', ''))[:110]))
        if kani and P.PROPS[pid].get('kani'):
            for r in kx_run.run_harnesses(pid, 'quick'):
                res.append(('K:' + r['harness'], r['status'], ''))
        bad = [x for x in res if x[1] == 'failed']
        other = [x for x in res if x[1] not in ('failed', 'ok')]
        print(os.path.basename(d), 'DETECTED' if bad else 'not-detected', [b[0] for b in bad], ('engine problems: %s' % other) if other else '', flush=True)
finally:
    subprocess.run(['git', '-C', '/repo', 'worktree', 'remove', '--force', WT], capture_output=True)
