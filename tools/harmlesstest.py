#!/usr/bin/env python3
"""Apply a behaviour-preserving refactoring (harmless/<name>/patch.diff) to /repo, run its property's quick check, undo it.
A VIOLATION (exit 1) on such a change is a FALSE ALARM of the machinery; exit 2 (undecided: an anchor was lost) is not an alarm.
usage: tools/harmlesstest.py harmless/<name> [...]"""
import json, os, re, subprocess, sys, time
VERIF = os.path.dirname(os.path.dirname(os.path.abspath(__file__)))
for d in sys.argv[1:]:
    d = d.rstrip('/')
    meta = json.load(open(os.path.join(d, 'meta.json')))
    pid = re.search(r'C\d+', str(meta['property'])).group(0)
    if subprocess.run(['git', '-C', '/repo', 'status', '--porcelain', '--untracked-files=no'], capture_output=True, text=True).stdout.strip():
        print('refusing: /repo has local changes'); sys.exit(2)
    ap = subprocess.run(['git', '-C', '/repo', 'apply', os.path.abspath(os.path.join(d, 'patch.diff'))], capture_output=True, text=True)
    if ap.returncode != 0:
        print('%s: patch does not apply: %s' % (d, ap.stderr[:200])); continue
    t0 = time.time()
    evp = os.path.join(VERIF, 'evidence', pid + '.json')
    saved = open(evp).read() if os.path.exists(evp) else None
    try:
        r = subprocess.run([os.path.join(VERIF, 'check'), pid], capture_output=True, text=True, cwd=VERIF, stdin=subprocess.DEVNULL)
    finally:
        subprocess.run(['git', '-C', '/repo', 'checkout', '--', '.'])
        if saved is not None:
            open(evp, 'w').write(saved)
    lines = [l for l in r.stdout.split('\n') if l.startswith(('VIOLATION', 'UNDECIDED', 'OK ', 'VIOLATED', 'KNOWN', '  failed'))]
    verdict = {0: 'accepted', 1: 'FALSE-ALARM', 2: 'undecided'}.get(r.returncode, 'rc=%d' % r.returncode)
    json.dump({'refactoring': os.path.basename(d), 'property': pid, 'check_rc': r.returncode, 'verdict': verdict, 'report': lines[:12], 'wall_s': round(time.time() - t0, 1)},
              open(os.path.join(d, 'check_result.json'), 'w'), indent=1)
    print('%s: rc=%d %s' % (os.path.basename(d), r.returncode, verdict))
    for l in lines[:5]:
        if not l.startswith('OK '):
            print('    ' + l[:260])
