"""Run Verus on a generated unit and turn its output into named obligations (DESIGN §6.1)."""
import hashlib
import json
import os
import re
import shutil
import subprocess
import sys
import time

sys.path.insert(0, os.path.dirname(os.path.abspath(__file__)))
import vx_gen  # noqa: E402
from rsx import ExtractError, norm_ws  # noqa: E402

VERIF = vx_gen.VERIF
OUT = os.path.join(VERIF, 'out', 'verus')

# messages that mean "an obligation was not discharged" (anything else at level error is an engine failure)
OBLIGATION_MSGS = [
    ('postcondition not satisfied', 'post'),
    ('precondition not satisfied', 'pre'),
    ('possible arithmetic underflow/overflow', 'overflow'),
    ('possible bit shift underflow/overflow', 'shift'),
    ('possible division by zero', 'divzero'),
    ('assertion failed', 'assert'),
    ('invariant not satisfied before loop', 'inv-entry'),
    ('invariant not satisfied at end of loop body', 'inv-preserve'),
    ('loop invariant not satisfied', 'inv-exit'),
    ('decreases not satisfied', 'decreases'),
    ('could not prove termination', 'decreases'),
    ('unreachable code may be reached', 'unreachable'),
    ('could not show invariant', 'inv'),
    ('constructed value may fail to meet its declared type invariant', 'type-inv'),
]
ENGINE_MSGS = ['Resource limit (rlimit) exceeded', 'rlimit', 'timed out', 'not supported', 'unsupported']

TRUST_PATTERNS = [
    (r'#\[verifier::external_body\]', 'external_body'),
    (r'\bassume_specification\b', 'assume_specification'),
    (r'\bassume\s*\(', 'assume'),
    (r'\badmit\s*\(', 'admit'),
    (r'#\[verifier::external\]', 'external'),
    (r'\bunsafe\b', 'unsafe'),
    (r'#\[verifier::exec_allows_no_decreases_clause\]', 'no_decreases'),
    (r'#\[verifier::loop_isolation\(false\)\]', 'loop_isolation_off'),
]


def scan_trust(text):
    """Mechanical scan of the generated file for every unchecked assumption."""
    out = []
    lines = text.split('\n')
    for i, ln in enumerate(lines):
        code = ln.split('//')[0]
        for pat, kind in TRUST_PATTERNS:
            if re.search(pat, code):
                # the declaration it applies to: next line containing `fn ` or the same line
                ctx = code.strip()
                want = r'\[([^\]]+)\]' if kind == 'assume_specification' else r'fn\s+(\w+)'
                for k in range(i, min(i + 6, len(lines))):
                    if kind != 'assume_specification' and k == i and 'fn ' not in lines[k].split('#[')[0]:
                        continue
                    m = re.search(want, lines[k])
                    if m:
                        ctx = m.group(1)
                        break
                out.append({'kind': kind, 'line': i + 1, 'decl': norm_ws(ctx)[:100]})
    return out


def count_air_asserts(logdir):
    """Count labelled (assert ...) statements per function in the AIR log — the generated obligations."""
    per_fn = {}
    kinds = {}
    p = os.path.join(logdir, 'root.air')
    if not os.path.exists(p):
        return per_fn, kinds
    cur = None
    seen = set()
    with open(p, encoding='utf-8', errors='replace') as f:
        lines = f.readlines()
    i = 0
    n = len(lines)
    while i < n:
        ln = lines[i]
        if ln.startswith(';; Function-Def '):
            cur = ln[len(';; Function-Def '):].strip()
        elif ln.lstrip().startswith('(assert') and cur is not None:
            # the label is on the next line: ("message" ...)
            lab = lines[i + 1].strip() if i + 1 < n else ''
            m = re.match(r'\("([^"]*)"', lab)
            msg = m.group(1) if m else 'unlabelled'
            # dedupe repeated queries of the same function (multiple-errors re-queries): key on the text
            # of the next few lines
            key = (cur, ''.join(lines[i:i + 6]))
            if key not in seen:
                seen.add(key)
                per_fn[cur] = per_fn.get(cur, 0) + 1
                kinds[msg] = kinds.get(msg, 0) + 1
        i += 1
    return per_fn, kinds


def func_at(meta, line):
    for f in meta['funcs']:
        if f['gen_start'] <= line <= f['gen_end']:
            return f
    return None


def template_fn_at(gen_lines, line):
    """For template-origin lines: name of the enclosing `fn`/`proof fn` (searching upwards)."""
    for k in range(min(line, len(gen_lines)) - 1, -1, -1):
        m = re.match(r'\s*(?:pub\s+)?(?:broadcast\s+)?(?:proof\s+|spec\s+|exec\s+)?fn\s+(\w+)', gen_lines[k])
        if m:
            return m.group(1)
    return None


def unspecified_closure(lines):
    """does this generated function contain a closure expression that carries no `ensures` (R15 output has one)?"""
    import rsx
    text = '\n'.join(lines)
    mask = rsx.code_mask(text)
    for m in re.finditer(r'(?:[(,=]|\bmove\b)\s*(\|[^|\n]*\|)', text):
        if not mask[m.start(1)]:
            continue
        if re.match(r'\s*->\s*\(verif_ret', text[m.end():m.end() + 40]):
            continue
        return True
    return False


def unspecified_loop(lines):
    """does this generated function contain a loop that carries no invariant / decreases / ensures clause?"""
    import rsx
    text = '\n'.join(lines)
    mask = rsx.code_mask(text)
    for m in re.finditer(r'\b(while|for|loop)\b', text):
        if not mask[m.start()]:
            continue
        depth = 0
        brace = None
        for j in range(m.end(), len(text)):
            if not mask[j]:
                continue
            c = text[j]
            if c in '([':
                depth += 1
            elif c in ')]':
                depth -= 1
            elif c == '{' and depth == 0:
                brace = j
                break
            elif c == ';' and depth == 0:
                break
        if brace is None:
            continue
        if not re.search(r'\b(invariant|invariant_except_break|decreases|ensures)\b', text[m.end():brace]):
            return True
    return False


UNRESOLVED = [r'no method named `(\w+)` found', r'no (?:function or )?associated (?:item|function or constant) named `(\w+)` found',
              r'cannot find function `(\w+)` in this scope', r'cannot find value `(\w+)` in this scope']


def run_unit(unit, repo=None, rlimit=30, vacuity=False, outdir=OUT, seed=None, keep_air=True, case=None, lift=None):
    """R17 driver: when Verus cannot resolve a name (a helper or constant that a refactoring introduced and the template does
    not list), generate again with that helper inlined at its call sites / that constant lifted, at most 3 times."""
    lift = set(lift or [])
    res = _run_unit(unit, repo, rlimit, vacuity, outdir, seed, keep_air, case, lift)
    if case or vacuity:
        return res
    for _round in range(3):
        if res['status'] != 'engine-failure':
            break
        names = set()
        for e in res['engine_errors']:
            for pat in UNRESOLVED:
                names.update(re.findall(pat, e))
        names -= lift
        if not names:
            break
        lift |= names
        res2 = _run_unit(unit, repo, rlimit, vacuity, outdir, seed, keep_air, case, lift)
        if not res2.get('lifted'):
            break           # nothing could be lifted: keep the first (clearer) diagnosis
        res = res2
    return res


def _run_unit(unit, repo=None, rlimit=30, vacuity=False, outdir=OUT, seed=None, keep_air=True, case=None, lift=None):
    """Generate and verify one unit. Returns a result dict; never raises for verifier findings."""
    t0 = time.time()
    res = {'unit': unit, 'status': 'ok', 'engine_errors': [], 'failures': [], 'functions': [], 'wall_s': 0.0}
    try:
        if case:
            path, meta = vx_gen.generate(unit, outdir, repo or vx_gen.REPO, False, case, lift)
        elif vacuity:
            path, meta = vx_gen.generate_vacuity(unit, outdir, repo or vx_gen.REPO, vacuity)
        else:
            path, meta = vx_gen.generate(unit, outdir, repo or vx_gen.REPO, False, None, lift)
    except ExtractError as e:
        res['status'] = 'engine-failure'
        res['engine_errors'].append('extraction: %s' % e)
        res['wall_s'] = time.time() - t0
        return res
    res['meta'] = {k: meta[k] for k in ('rules', 'slices', 'dropped_statements')}
    res['lifted'] = meta.get('lifted', [])
    res['gen_file'] = path
    gen_text = open(path, encoding='utf-8').read()
    gen_lines = gen_text.split('\n')
    res['trust'] = scan_trust(gen_text)
    logdir = path[:-3] + '.log'
    shutil.rmtree(logdir, ignore_errors=True)
    cmd = ['verus', os.path.basename(path), '--output-json', '--time-expanded', '--multiple-errors', '0' if vacuity else '40',
           '--error-format=json', '--rlimit', str(rlimit), '--no-report-long-running']
    if keep_air:
        cmd += ['--log', 'air', '--log-dir', os.path.basename(logdir)]
    if seed is not None:
        cmd += ['--smt-option', 'smt.random_seed=%d' % seed]
    for o in meta.get('smt_options', []):
        cmd += ['--smt-option', o]
    if case:
        # a case-split twin verifies only the split function (everything else is verified in the main file)
        impl_hdr, fname = case[0].rsplit('::', 1)
        cmd += ['--verify-root', '--verify-function', (impl_type(impl_hdr) + '::' if impl_hdr != '-' else '') + fname]
    res['checker_cmd'] = ' '.join(cmd)
    try:
        p = subprocess.run(cmd, cwd=os.path.dirname(path), capture_output=True, text=True, timeout=3600)
    except subprocess.TimeoutExpired:
        res['status'] = 'engine-failure'
        res['engine_errors'].append('verus timed out')
        res['wall_s'] = time.time() - t0
        return res
    open(path[:-3] + '.stdout', 'w').write(p.stdout)
    open(path[:-3] + '.stderr', 'w').write(p.stderr)
    try:
        js = json.loads(p.stdout)
    except Exception:
        js = None
    diags = []
    for ln in p.stderr.split('\n'):
        ln = ln.strip()
        if ln.startswith('{'):
            try:
                diags.append(json.loads(ln))
            except Exception:
                pass
    # ---------- per function results
    fb = {}
    if js:
        for mod in js.get('times-ms', {}).get('smt', {}).get('smt-run-module-times', []):
            for f in mod.get('function-breakdown', []):
                fb[f['function']] = f
        res['verus_results'] = js.get('verification-results', {})
        res['smt_ms'] = js.get('times-ms', {}).get('smt', {}).get('smt-run', 0)
    per_fn_asserts, kinds = count_air_asserts(logdir) if keep_air else ({}, {})
    res['assert_kinds'] = kinds
    crate = os.path.splitext(os.path.basename(path))[0]
    for f in meta['funcs']:
        key_suffix = '::' + f['name']
        cands = [k for k in fb if k.endswith(key_suffix) and (f['impl'] == '-' or impl_type(f['impl']) in k)]
        entry = {'name': f['name'], 'impl': f['impl'], 'file': f['file'], 'src_line': f['src_line'],
                 'props': f['props'], 'ext': f['ext'], 'contract_lines': f['contract_lines'],
                 'verus_name': cands[0] if cands else None,
                 'smt_us': sum(fb[c].get('time-micros', 0) for c in cands),
                 'success': all(fb[c].get('success', False) for c in cands) if cands else None,
                 'obligations': sum(per_fn_asserts.get(c, 0) for c in cands)}
        res['functions'].append(entry)
    # template-defined functions (lemmas, helper exec fns)
    known = set(e['verus_name'] for e in res['functions'] if e['verus_name'])
    res['template_functions'] = []
    for k, f in fb.items():
        if k in known or k.startswith('vstd::') or not k.startswith(crate + '::'):
            continue
        res['template_functions'].append({'verus_name': k, 'smt_us': f.get('time-micros', 0),
                                          'success': f.get('success'), 'obligations': per_fn_asserts.get(k, 0),
                                          'mode': f.get('mode:')})
    # ---------- diagnostics
    for d in diags:
        if d.get('level') != 'error':
            continue
        msg = d.get('message', '')
        if msg.startswith('aborting due to'):
            continue
        kind = None
        for pat, k in OBLIGATION_MSGS:
            if msg.startswith(pat) or pat in msg:
                kind = k
                break
        spans = d.get('spans', [])
        prim = [s for s in spans if s.get('is_primary')] or spans
        if kind is None or any(e in msg for e in ENGINE_MSGS):
            res['status'] = 'engine-failure'
            where = ''
            if prim:
                where = ' at %s:%d' % (prim[0].get('file_name'), prim[0].get('line_start', 0))
                f = func_at(meta, prim[0].get('line_start', 0))
                if f:
                    where += ' (fn %s)' % f['name']
            res['engine_errors'].append(msg + where)
            continue
        # function attribution: any span inside an extracted function, primary first
        f = None
        for s in prim + spans:
            f = func_at(meta, s.get('line_start', 0))
            if f:
                break
        fname = None
        props = []
        if f:
            fname = (impl_type(f['impl']) + '::' if f['impl'] != '-' else '') + f['name']
            props = f['props']
        else:
            ln = prim[0].get('line_start', 0) if prim else 0
            fname = template_fn_at(gen_lines, ln) or '?'
            props = template_props_at(gen_lines, ln)
        texts = []
        for s in spans:
            t = ' '.join(x.get('text', '')[x.get('highlight_start', 1) - 1:x.get('highlight_end', 1) - 1]
                         for x in s.get('text', [])[:3])
            lab = s.get('label') or ''
            texts.append((s.get('is_primary', False), lab, norm_ws(t)))
        # obligation text: the clause (post), the call + clause (pre), the expression (overflow/assert)
        if kind == 'post':
            core = [t for (_, lab, t) in texts if 'failed this postcondition' in lab]
        elif kind == 'pre':
            core = [t for (pr, lab, t) in texts if pr] + [t for (_, lab, t) in texts if 'failed precondition' in lab]
        else:
            core = [t for (pr, lab, t) in texts if pr]
        if not core:
            core = [t for (_, _, t) in texts]
        text = ' <- '.join(c for c in core if c)[:300]
        name = '%s/%s/%s@%s' % (unit, fname, kind, text)
        src = None
        if f:
            gl = prim[0].get('line_start', 0) if prim else 0
            src = '%s (fn at line %d)' % (f['file'], f['src_line'])
        if f and unspecified_loop(gen_lines[f['gen_start'] - 1:f['gen_end']]):
            # a loop the template does not annotate (new, or rewritten so that its anchor is gone) cuts the proof off: what fails
            # after it says nothing about the code
            res['status'] = 'engine-failure'
            res['engine_errors'].append('obligation not decidable: %s contains a loop without an invariant (%s: %s)' % (fname, kind, text[:120]))
            continue
        if f and unspecified_closure(gen_lines[f['gen_start'] - 1:f['gen_end']]):
            # Verus knows nothing about the result of a closure without `ensures`; R15 gives contracts only to the closures the
            # template names. A failed obligation here may be that ignorance, not the code: undecided, never an alarm.
            res['status'] = 'engine-failure'
            res['engine_errors'].append('obligation not decidable: %s contains a closure without a contract (%s: %s)' % (fname, kind, text[:120]))
            continue
        res['failures'].append({'obligation': name, 'unit': unit, 'function': fname, 'kind': kind, 'text': text,
                                'message': msg, 'props': props, 'source': src,
                                'rendered': d.get('rendered', '')[:3000]})
    if js is None and not res['engine_errors']:
        res['status'] = 'engine-failure'
        res['engine_errors'].append('verus produced no JSON summary; stderr head: %s' % p.stderr[:400])
    if js and js.get('verification-results', {}).get('encountered-vir-error'):
        res['status'] = 'engine-failure'
        if not res['engine_errors']:
            res['engine_errors'].append('verus reported a VIR error')
    if res['failures'] and res['status'] == 'ok':
        res['status'] = 'failed-obligations'
    # sanity: something must have been verified
    if res['status'] == 'ok':
        ver = (js or {}).get('verification-results', {})
        good = ver.get('success') if not case else (not ver.get('encountered-error') and ver.get('errors', 1) == 0 and ver.get('verified', 0) >= 1)
        if not good or (ver.get('verified', 0) == 0 and not case):
            res['status'] = 'engine-failure'
            res['engine_errors'].append('verus did not report success: %s' % json.dumps(ver))
    # ---------- case-split twins (obligation splitting for functions whose merged query explodes)
    if not case and not vacuity and meta.get('case_splits'):
        import concurrent.futures as cf
        jobs = []
        with cf.ThreadPoolExecutor(max_workers=10) as ex:
            for fn_key, guards in meta['case_splits'].items():
                for i, g in enumerate(guards):
                    jobs.append((fn_key, i, g, ex.submit(_run_unit, unit, repo, rlimit, False, outdir, seed, keep_air, (fn_key, i), lift)))
            for fn_key, i, g, fut in jobs:
                cr = fut.result()
                impl_hdr, fname = fn_key.rsplit('::', 1)
                nm = (impl_type(impl_hdr) + '::' if impl_hdr != '-' else '') + fname
                if cr['status'] == 'engine-failure':
                    res['status'] = 'engine-failure'
                    res['engine_errors'].append('case twin %s [%s]: %s' % (nm, g, '; '.join(cr['engine_errors'])[:200]))
                res['lifted'] = sorted(set(res.get('lifted', []) + cr.get('lifted', [])))
                for f in cr['failures']:
                    f = dict(f)
                    f['obligation'] = f['obligation'].replace(unit + '/', unit + '/[case %s] ' % g, 1)
                    res['failures'].append(f)
                    if res['status'] == 'ok':
                        res['status'] = 'failed-obligations'
                for fe in res['functions']:
                    if fe['name'] == fname and fe['impl'] == impl_hdr:
                        cf_ = [x for x in cr['functions'] if x['name'] == fname and x['impl'] == impl_hdr]
                        if cf_:
                            fe['obligations'] += cf_[0]['obligations']
                            fe['smt_us'] += cf_[0]['smt_us']
                            fe['ext'] = False
                            fe['case_split'] = len(guards)
                            fe['success'] = (fe.get('success') is not False) and bool(cf_[0]['success'])
                            if fe['verus_name'] is None:
                                fe['verus_name'] = cf_[0]['verus_name']
    res['wall_s'] = round(time.time() - t0, 2)
    return res


def impl_type(impl_hdr):
    """`impl<'a> TryFrom<u16> for Foo` -> Foo ; `impl Foo` -> Foo"""
    h = impl_hdr
    m = re.search(r'\bfor\s+([A-Za-z_][A-Za-z0-9_]*)', h)
    if m:
        return m.group(1)
    m = re.match(r'impl(?:<[^>]*>)?\s+([A-Za-z_][A-Za-z0-9_]*)', h)
    return m.group(1) if m else h


def template_props_at(gen_lines, line):
    for k in range(min(line, len(gen_lines)) - 1, -1, -1):
        m = re.match(r'\s*//\s*props:\s*([A-Z0-9, ]+)', gen_lines[k])
        if m:
            return [p.strip() for p in m.group(1).split(',') if p.strip()]
    return []


if __name__ == '__main__':
    r = run_unit(sys.argv[1], vacuity=(sys.argv[sys.argv.index('--vacuity') + 1] if '--vacuity' in sys.argv else False))
    r.pop('meta', None)
    print(json.dumps(r, indent=1))
