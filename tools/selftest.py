#!/usr/bin/env python3
"""setup_cmd: nothing to build (pure Python + pre-installed verifiers); check the tools are present."""
import os, shutil, subprocess, sys
HERE = os.path.dirname(os.path.abspath(__file__))
ok = True
for tool in ['verus', 'cargo']:
    if not shutil.which(tool):
        print('missing tool:', tool); ok = False
for f in ['vx_gen.py', 'vx_run.py', 'check.py', 'props.py', 'rsx.py']:
    r = subprocess.run([sys.executable, '-m', 'py_compile', os.path.join(HERE, f)])
    ok = ok and r.returncode == 0
os.makedirs(os.path.join(os.path.dirname(HERE), 'out'), exist_ok=True)
os.makedirs(os.path.join(os.path.dirname(HERE), 'evidence'), exist_ok=True)
print('selftest', 'ok' if ok else 'FAILED')
sys.exit(0 if ok else 1)
