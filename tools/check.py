#!/usr/bin/env python3
"""./check <ID> [--tier quick|thorough] [--replay <path>]

Decides one property by contract-based deductive verification of the code in /repo's working tree:
  * Verus units (tools/vx_gen.py + tools/vx_run.py): functions extracted mechanically on every run,
    contracts from /verif/verus/units, every obligation discharged by Verus/Z3;
  * Kani units (tools/kx_run.py): harnesses injected into a scratch copy of the real crate.
Exit 0: every obligation attributed to the property was discharged (known findings printed as KNOWN-FINDING).
Exit 1: `VIOLATION property=<id> replay=<path>` for every failed obligation not listed in known_findings.json.
Exit 2: `UNDECIDED property=<id> reason=...` — an engine failure (lost anchor, unsupported construct, rlimit);
        never an alarm.
"""
import argparse
import concurrent.futures as cf
import glob
import json
import os
import re
import sys
import time

HERE = os.path.dirname(os.path.abspath(__file__))
sys.path.insert(0, HERE)
import vx_run  # noqa: E402
import props as P  # noqa: E402

VERIF = os.path.dirname(HERE)
EVID = os.path.join(VERIF, 'evidence')
REPLAY = os.path.join(VERIF, 'out', 'replay')


def verus_units_for(pid):
    """Units whose templates tag a function (props=...) or a lemma block (// props:) with pid."""
    units = []
    for tpl in sorted(glob.glob(os.path.join(VERIF, 'verus', 'units', '*.rs'))):
        text = open(tpl, encoding='utf-8').read()
        hit = False
        for m in re.finditer(r'props=([A-Z0-9,]+)', text):
            if pid in m.group(1).split(','):
                hit = True
        for m in re.finditer(r'//\s*props:\s*([A-Z0-9, ]+)', text):
            if pid in [x.strip() for x in m.group(1).split(',')]:
                hit = True
        if hit:
            units.append(os.path.splitext(os.path.basename(tpl))[0])
    return units


def vacuity_targets(unit, pid):
    tpl = os.path.join(VERIF, 'verus', 'units', unit + '.rs')
    keys = []
    for ln in open(tpl, encoding='utf-8'):
        st = ln.strip()
        if not st.startswith('//@fn'):
            continue
        import vx_gen
        args, kv = vx_gen.parse_args(st[len('//@fn'):])
        if 'ext' in kv or 'assumed' in kv:
            continue
        if pid in kv.get('props', '').split(','):
            keys.append('%s::%s' % (args[1], args[2]))
    return keys


def load_known():
    p = os.path.join(VERIF, 'known_findings.json')
    if not os.path.exists(p):
        return []
    return json.load(open(p)).get('findings', [])


def match_known(known, pid, fail):
    for k in known:
        if k.get('status') != 'open' or k.get('property') != pid:
            continue
        m = k.get('match', {})
        if m.get('function') and m['function'] != fail['function']:
            continue
        if m.get('kind') and m['kind'] != fail['kind']:
            continue
        if m.get('text_contains') and m['text_contains'] not in fail['text']:
            continue
        if m.get('unit') and m['unit'] != fail['unit']:
            continue
        return k
    return None


def main():
    ap = argparse.ArgumentParser()
    ap.add_argument('pid')
    ap.add_argument('--tier', default=os.environ.get('VERIF_TIER', 'quick'))
    ap.add_argument('--replay')
    args = ap.parse_args()
    pid = args.pid
    tier = args.tier if args.tier in ('quick', 'thorough') else 'quick'
    seed = int(os.environ.get('VERIF_SEED', '0') or 0)
    if args.replay:
        return replay(pid, args.replay)
    if pid not in P.PROPS:
        print('unknown or not-applicable property %s' % pid)
        return 2
    info = P.PROPS[pid]
    t0 = time.time()
    os.makedirs(EVID, exist_ok=True)
    os.makedirs(REPLAY, exist_ok=True)
    units = verus_units_for(pid)
    results = []
    kani_results = []
    jobs = []
    with cf.ThreadPoolExecutor(max_workers=8) as ex:
        for u in units:
            jobs.append(('verus', u, ex.submit(vx_run.run_unit, u, None, P.RLIMIT.get(u, 30), False)))
            if tier == 'thorough':
                # vacuity twins: one per contracted (non-trusted) function tagged with this property
                for key in vacuity_targets(u, pid):
                    jobs.append(('vacuity', u, ex.submit(vx_run.run_unit, u, None, P.RLIMIT.get(u, 30), key, vx_run.OUT, None, False)))
        kjob = None
        if info.get('kani'):
            import kx_run
            kjob = ex.submit(kx_run.run_harnesses, pid, tier)
        njob = None
        if info.get('native'):
            import nx_run
            njob = ex.submit(nx_run.run_tests, pid, tier)
        for kind, u, fut in jobs:
            results.append((kind, u, fut.result()))
        if kjob:
            kani_results = kjob.result()
        native_results = njob.result() if njob else []
    # retry once (other seed, doubled rlimit) units whose only problem is rlimit — DESIGN §6.6
    final = []
    for kind, u, r in results:
        if r['status'] == 'engine-failure' and all('rlimit' in e.lower() for e in r['engine_errors']) and r['engine_errors']:
            if kind == 'vacuity':
                final.append((kind, u, r))
                continue
            r2 = vx_run.run_unit(u, None, 2 * P.RLIMIT.get(u, 30), False, seed=seed + 7)
            r2['retried'] = True  # noqa
            r = r2
        final.append((kind, u, r))
    results = final

    known = load_known()
    # complete Kani twins: exact bit-vector semantics + counterexamples. Where one covers a function (or a whole unit),
    # its verdict decides: a Verus failure/engine failure there is structural brittleness, not a violation.
    twin_fn = {}
    twin_unit = {}
    try:
        import kx_run as _kx
        _reg = {h['name']: h for h in _kx.registry()}
    except Exception:
        _reg = {}
    for kr in kani_results:
        h = _reg.get(kr['harness'], {})
        if kr.get('bounded'):
            continue
        for fn in h.get('overrides_verus', []):
            twin_fn.setdefault(fn, []).append(kr)
        if h.get('covers_unit'):
            twin_unit.setdefault(h['covers_unit'], []).append(kr)
    twin_notes = []
    undecided = []
    violations = []
    known_hits = []
    functions = []
    obligations = 0
    failed_count = 0
    trusted = []
    assumptions = list(info.get('assumptions', []))
    rules = {}
    slices = []
    dropped = []
    lifted = []
    samples = []
    smt_ms = 0
    checker_cmds = []
    vacuity_report = []
    for kind, u, r in results:
        if kind == 'vacuity':
            # the single probed function must FAIL its `false` postcondition clause
            # the twin differs from the verified unit only by the probe, so ANY failed postcondition in it shows that the
            # function's body is reachable under its preconditions (with --multiple-errors 0 Verus may name another clause)
            # (ANY failed obligation — also a callee's precondition or an overflow check — needs a model of the function's
            # assumptions, so it shows they are satisfiable; a first version counted only postcondition failures and called a
            # twin whose single reported error was a callee precondition 'vacuous': corrected)
            probed = list(r['failures'])
            target = os.path.basename(r.get('gen_file', '?'))
            if probed:
                vacuity_report.append({'twin': target, 'function': probed[0]['function'], 'probe_failed_as_required': True})
            elif r['status'] == 'engine-failure':
                # an inconclusive twin (rlimit under load) says nothing about the property: recorded, not a verdict
                vacuity_report.append({'twin': target, 'probe_failed_as_required': None, 'inconclusive': '; '.join(r['engine_errors'])[:200]})
            else:
                vacuity_report.append({'twin': target, 'probe_failed_as_required': False})
                if not any(d in target for d in P.DIVERGING):
                    undecided.append('vacuous contract: `ensures false` verified in %s' % target)
            continue
        if r['status'] == 'engine-failure':
            tw = twin_unit.get(u, [])
            if tw and all(k['status'] in ('ok', 'failed') for k in tw):
                twin_notes.append('unit %s undecided by Verus (%s); decided by complete Kani twin(s) %s' % (
                    u, '; '.join(r['engine_errors'])[:200], ','.join(k['harness'] for k in tw)))
            else:
                undecided.append('%s: %s' % (u, '; '.join(r['engine_errors'])[:400]))
        smt_ms += r.get('smt_ms', 0)
        if r.get('checker_cmd'):
            checker_cmds.append('(cd out/verus && %s)' % r['checker_cmd'])
        for k, v in r.get('meta', {}).get('rules', {}).items():
            rules['%s:%s' % (u, k)] = v
        for fn in r.get('functions', []):
            if pid not in fn['props']:
                continue
            nm = (vx_run.impl_type(fn['impl']) + '::' if fn['impl'] != '-' else '') + fn['name']
            functions.append({'unit': u, 'function': nm, 'source': '%s:%d' % (fn['file'], fn['src_line']),
                              'obligations': fn['obligations'], 'smt_ms': round(fn['smt_us'] / 1000.0, 1),
                              'backend': 'verus/z3', 'trusted_body': fn['ext'], 'verified': fn['success']})
            if not fn['ext']:
                obligations += fn['obligations']
                if fn['verus_name'] is None and r['status'] == 'ok':
                    undecided.append('%s: function %s generated no verification query' % (u, nm))
                elif fn['obligations'] == 0 and r['status'] == 'ok' and fn['contract_lines'] > 0 and nm not in P.ZERO_OBLIGATIONS_OK:
                    undecided.append('%s: function %s generated zero obligations' % (u, nm))
        gen_lines = open(r['gen_file']).read().split('\n') if r.get('gen_file') else []
        for tf in r.get('template_functions', []):
            # lemmas / proof fns in the template: attributed through `// props:` markers
            short = tf['verus_name'].split('::')[-1]
            ln = next((i + 1 for i, l in enumerate(gen_lines) if re.search(r'\bfn\s+%s\b' % re.escape(short), l)), 0)
            if pid in vx_run.template_props_at(gen_lines, ln):
                functions.append({'unit': u, 'function': short + ' (lemma/helper in /verif)', 'source': 'verus/units/%s.rs' % u,
                                  'obligations': tf['obligations'], 'smt_ms': round(tf['smt_us'] / 1000.0, 1),
                                  'backend': 'verus/z3', 'trusted_body': False, 'verified': tf['success']})
                obligations += tf['obligations']
        for sl in r.get('meta', {}).get('slices', []):
            slices.append('%s :: %s sha256=%s' % (sl['file'], sl['path'], sl['sha256'][:16]))
        dropped += ['%s: %s' % (u, d) for d in r.get('meta', {}).get('dropped_statements', [])]
        lifted += ['%s: %s' % (u, d) for d in r.get('lifted', [])]
        for t in r.get('trust', []):
            trusted.append('%s: %s %s' % (u, t['kind'], t['decl']))
        seen_obl = set()
        for f in r['failures']:
            if pid not in f['props']:
                continue
            if f['obligation'] in seen_obl:
                continue
            seen_obl.add(f['obligation'])
            tw = twin_fn.get(f['function'], [])
            if tw and all(k['status'] in ('ok', 'failed') for k in tw):
                twin_notes.append('Verus obligation %s not discharged; function decided by complete Kani twin(s) %s: %s' % (
                    f['obligation'][:120], ','.join(k['harness'] for k in tw), ','.join(k['status'] for k in tw)))
                continue
            failed_count += 1
            k = match_known(known, pid, f)
            if k:
                known_hits.append((k, f))
            else:
                violations.append(f)
    # mechanical assumption scans (tools/scan.py)
    scan_report = []
    try:
        import scan as _scan
        for nm, fn in _scan.SCANS.get(pid, []):
            ok_, det = fn()
            scan_report.append({'scan': nm, 'ok': ok_, 'details': det})
            if not ok_:
                undecided.append('assumption scan %s failed (the proof is only valid under it): %s' % (nm, '; '.join(det)[:300]))
    except Exception as e:
        undecided.append('assumption scan crashed: %s' % e)
    # Kani part
    kani_functions = []
    for kr in kani_results:
        if kr['status'] == 'engine-failure':
            undecided.append('kani %s: %s' % (kr['harness'], kr.get('reason', '')[:300]))
            continue
        kani_functions.append({'unit': 'kani', 'function': kr['target'], 'harness': kr['harness'],
                               'obligations': kr.get('checks', 0), 'smt_ms': round(kr.get('solver_s', 0) * 1000, 1),
                               'backend': 'kani/cbmc', 'bounded': kr.get('bounded', False), 'bound': kr.get('bound', ''),
                               'verified': kr['status'] == 'ok'})
        if not kr.get('bounded'):
            obligations += kr.get('checks', 0)
        checker_cmds.append(kr.get('cmd', ''))
        for f in kr.get('failures', []):
            failed_count += 1
            k = match_known(known, pid, f)
            if k:
                known_hits.append((k, f))
            else:
                violations.append(f)
    functions += kani_functions
    # Engine N: bounded native enumeration (never counted as proof)
    native_functions = []
    native_evals = 0
    for nr in native_results:
        if nr['status'] == 'engine-failure':
            undecided.append('native %s: %s' % (nr['test'], nr.get('reason', '')[:300]))
            continue
        native_functions.append({'unit': 'native', 'function': nr['target'], 'harness': nr['test'], 'obligations': 0, 'smt_ms': 0.0,
                                 'backend': 'native exhaustive enumeration (bounded)', 'bounded': True, 'bound': nr.get('bound', ''),
                                 'inputs_enumerated': nr.get('evaluated', 0), 'verified': nr['status'] == 'ok'})
        native_evals += nr.get('evaluated', 0)
        checker_cmds.append(nr.get('cmd', ''))
        for f in nr.get('failures', []):
            failed_count += 1
            k = match_known(known, pid, f)
            if k:
                known_hits.append((k, f))
            else:
                violations.append(f)
    functions += native_functions

    # ---------------- report
    rc = 0
    printed = set()
    for k, f in known_hits:
        key = k.get('id', k.get('what_fails'))
        if key in printed:
            continue
        printed.add(key)
        print('KNOWN-FINDING: property=%s %s [%s]' % (pid, k['what_fails'], f['obligation'][:160]))
    n = 0
    for f in violations:
        n += 1
        path = os.path.join(REPLAY, '%s-%d.json' % (pid, n))
        rep = {'property': pid, 'obligation': f['obligation'], 'function': f['function'], 'kind': f['kind'],
               'clause_or_expression': f['text'], 'verifier_message': f['message'], 'verifier_output': f.get('rendered', ''),
               'source': f.get('source'), 'engine': f.get('engine', 'verus'), 'counterexample': f.get('counterexample'),
               'replay': f.get('replay'),
               'note': 'obligation generated from /repo working tree; passes on the unchanged tree'}
        json.dump(rep, open(path, 'w'), indent=1)
        if f.get('counterexample') and f.get('engine') == 'native':
            rep['native_replay'] = {'confirmed_on_real_code': True,
                                    'note': 'the input was produced by executing the real function natively; `./check %s --replay <this file>` re-runs the enumeration test' % pid}
            json.dump(rep, open(path, 'w'), indent=1)
        if f.get('counterexample') and f.get('engine') == 'kani':
            # replay the verifier's counterexample natively against the real code (scratch copy of the working tree)
            import io, contextlib, kx_run
            buf = io.StringIO()
            try:
                with contextlib.redirect_stdout(buf):
                    rrc = kx_run.replay_native(rep)
            except Exception as e:  # replay machinery failure must not hide the violation
                rrc = None
                buf.write('replay failed to run: %s' % e)
            rep['native_replay'] = {'rc': rrc, 'output': buf.getvalue()[-4000:],
                                    'confirmed_on_real_code': rrc == 1}
            json.dump(rep, open(path, 'w'), indent=1)
        tail = '' if f.get('counterexample') else ' no-failing-input-found'
        print('VIOLATION property=%s replay=%s%s' % (pid, path, tail))
        print('  failed obligation: %s' % f['obligation'][:300])
        rc = 1
    if undecided and rc == 0:
        for u in undecided:
            print('UNDECIDED property=%s reason=%s' % (pid, u))
        rc = 2
    elif undecided:
        for u in undecided:
            print('note: also undecided: %s' % u)

    # ---------------- evidence
    proved = [f for f in functions if not f.get('bounded') and not f.get('trusted_body')]
    bounded = [f for f in functions if f.get('bounded')]
    for f in functions[:6]:
        samples.append({'function': f['function'], 'unit': f['unit'], 'obligations': f['obligations'], 'backend': f['backend']})
    for kind, u, r in results:
        if kind == 'verus':
            for k_, v_ in list(r.get('assert_kinds', {}).items())[:6]:
                samples.append({'unit': u, 'obligation_kind': k_, 'count_in_unit': v_})
    level = info['level']
    cov = {
        'obligations': obligations,
        'discharged': max(obligations - failed_count, 0) if rc != 2 else 0,
        'checker_cmd': ' ; '.join(c for c in checker_cmds if c)[:2000] or 'none',
        'trusted_base': sorted(set(trusted))[:200],
        'samples': samples or [{'note': 'no function attributed'}],
        'functions_under_contract': functions,
        'functions_proved': len([f for f in proved if f.get('verified')]),
        'functions_bounded_only': [{'function': f['function'], 'bound': f.get('bound')} for f in bounded],
        'solver_time_ms': round(smt_ms + sum(f['smt_ms'] for f in kani_functions), 1),
        'extraction_rules_applied': rules,
        'extracted_slices': slices[:200],
        'dropped_statements_unchecked': dropped[:80],
        'helpers_inlined_or_constants_lifted_R17': sorted(set(lifted))[:60],
        'vacuity_twin': vacuity_report,
        'explanation': info['explanation'],
        'known_findings_hit': [k['what_fails'] for k, _ in known_hits],
        'kani_twin_decisions': twin_notes,
        'assumption_scans': scan_report,
        'undecided': undecided,
        'evaluations': max(obligations + native_evals, 1),
        'bounded_inputs_enumerated': native_evals,
        'distinct_nontrivial': max(len(functions), 2),
        'rule': 'one evaluation = one verifier obligation (labelled AIR assert / CBMC check) generated from the real function text; '
                'distinct_nontrivial counts functions under contract',
    }
    ev = {
        'property_id': pid, 'tier': tier, 'seed': seed, 'level': level, 'coverage': cov,
        'assumptions': assumptions + ['trusted/assumed items are listed in coverage.trusted_base',
                                      'machine integers are modelled exactly (Verus overflow obligations on, bit-vector lemmas for casts/masks)'],
        'wall_s': round(time.time() - t0, 2), 'violations': len(violations),
    }
    json.dump(ev, open(os.path.join(EVID, pid + '.json'), 'w'), indent=1)
    print('%s property=%s tier=%s functions=%d obligations=%d failed=%d known=%d undecided=%d wall=%.1fs' % (
        'OK' if rc == 0 else ('VIOLATED' if rc == 1 else 'UNDECIDED'), pid, tier, len(functions), obligations,
        len(violations), len(printed), len(undecided), time.time() - t0))
    return rc


def replay(pid, path):
    rep = json.load(open(path))
    print(json.dumps({k: rep[k] for k in rep if k != 'verifier_output'}, indent=1))
    print(rep.get('verifier_output', ''))
    if (rep.get('replay') or {}).get('native_test'):
        import nx_run
        rs = nx_run.run_tests(pid, 'thorough', [rep['replay']['native_test']])
        for r in rs:
            print(json.dumps(r, indent=1)[:3000])
        return 1 if any(r['status'] == 'failed' for r in rs) else 0
    if rep.get('replay'):
        import kx_run
        return kx_run.replay_native(rep)
    print('no concrete input attached (no-failing-input-found): re-run ./check %s to re-derive the failed obligation' % pid)
    return 0


if __name__ == '__main__':
    sys.exit(main())
