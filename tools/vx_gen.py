"""Template -> Verus file generator (Engine V of DESIGN.md §2.1).

A unit template (verus/units/<unit>.rs) is a Verus source file with directive lines:

  //@include <prelude-file>                      paste /verif/verus/prelude/<file>
  //@item FILE KIND NAME [in="impl hdr"] [derive=A,B] [strip_field_pub]
        copy a type / const item verbatim (rule R1 applied)
  //@fn FILE IMPL|- NAME [ret=r] [props=C01,C02] [ext] [rename=new] [nomacro]
  <contract clauses, verbatim>
  //@sub <<<anchor>>> ==> <<<replacement>>>      anchored rewrite (exactly one match, whitespace-flexible)
  //@suball <<<anchor>>> ==> <<<replacement>>>   same, every match (>= 1)
  //@subany <<<anchor>>> ==> <<<replacement>>>   same, every match (>= 0)
  //@exit CODE <spec-expr>                        assert <spec-expr> before each verif_exit(CODE) in this fn
  //@dispatch TABLE                               R9: replace `..TABLE[idx](a, b)` with a generated match
  //@end
        splice the real function: original signature (+ named return), the clauses, the original body
        with the global rules R1,R4,R5,R6,R7 applied.

The generator records, for each generated line range, where it came from, the sha256 of every extracted
slice, and the rules applied with counts.
"""
import hashlib
import os
import re
import shlex
import sys

sys.path.insert(0, os.path.dirname(os.path.abspath(__file__)))
import rsx  # noqa: E402
from rsx import ExtractError  # noqa: E402

VERIF = os.path.dirname(os.path.dirname(os.path.abspath(__file__)))
REPO = os.environ.get('VERIF_REPO', '/repo')

PRINT_MACROS = ['println', 'eprintln', 'print', 'eprint', 'dprintln', 'dprint']
UNREACH_MACROS = ['panic', 'unreachable', 'todo', 'unimplemented']
ASSERT_MACROS = ['assert', 'debug_assert']
ASSERT_EQ_MACROS = ['assert_eq', 'debug_assert_eq']
ALLOWED_DERIVES = ['Clone', 'Copy', 'PartialEq', 'Eq']


class Gen:
    def __init__(self, unit, repo=REPO, vacuity=False, case=None, lift=None):
        # R17: names Verus could not resolve in a first pass (helpers / constants a refactoring introduced)
        self.lift = set(lift or [])
        self.lifted = []
        self.unit = unit
        self.vacuity = vacuity
        self.case = case            # (fn key, case index) when generating a case-split twin
        self.case_splits = {}       # fn key -> list of guard expressions
        self.repo = repo
        self.files = {}
        self.rules = {}          # rule id -> count
        self.slices = []         # {file, path, sha256, lines}
        self.funcs = []          # {name, impl, file, src_line, gen_start, gen_end, props, ext}
        self.dropped = []        # text of dropped statements (R4)
        self.shared_contracts = []
        self.smt_options = []
        self.out_lines = []
        self.origin = []         # per generated line: (kind, ref)

    # ---------------------------------------------------------------- helpers
    def src(self, rel):
        if rel not in self.files:
            p = os.path.join(self.repo, rel)
            if rel.startswith('verif:'):
                p = os.path.join(VERIF, rel[len('verif:'):])
            try:
                text = open(p, encoding='utf-8').read()
            except OSError as e:
                raise ExtractError('cannot read %s: %s' % (p, e))
            self.files[rel] = (text, rsx.code_mask(text))
        return self.files[rel]

    def bump(self, rule, n=1):
        if n:
            self.rules[rule] = self.rules.get(rule, 0) + n

    def emit(self, text, origin):
        for ln in text.split('\n'):
            self.out_lines.append(ln)
            self.origin.append(origin)

    # ---------------------------------------------------------------- global rules on fn text
    def strip_vis(self, text):
        mask = rsx.code_mask(text)
        out = []
        last = 0
        n = 0
        for m in re.finditer(r'\bpub(\s*\((?:crate|super|self|in [^)]*)\))?\s+', text):
            if mask[m.start()]:
                out.append(text[last:m.start()])
                last = m.end()
                n += 1
        out.append(text[last:])
        self.bump('R1.strip_visibility', n)
        return ''.join(out)

    def strip_attrs(self, text):
        """Remove `#[...]` attributes (not doc comments)."""
        mask = rsx.code_mask(text)
        out = []
        last = 0
        i = 0
        n = 0
        while i < len(text):
            if mask[i] and text[i] == '#' and text[i + 1:i + 2] == '[':
                j = rsx.match_close(text, mask, i + 1)
                out.append(text[last:i])
                last = j + 1
                # swallow following newline+indent if attribute was alone on its line
                k = last
                while k < len(text) and text[k] in ' \t':
                    k += 1
                if k < len(text) and text[k] == '\n' and not text[text.rfind('\n', 0, i) + 1:i].strip():
                    last = k + 1
                    # also remove the indentation before '#'
                    ls = text.rfind('\n', 0, i) + 1
                    out[-1] = out[-1][:len(out[-1]) - (i - ls)]
                n += 1
                i = j + 1
                continue
            i += 1
        out.append(text[last:])
        self.bump('R1.strip_attributes', n)
        return ''.join(out)

    def rewrite_macros(self, text):
        """R4/R5/R6/R7 on a function body."""
        names = PRINT_MACROS + UNREACH_MACROS + ASSERT_MACROS + ASSERT_EQ_MACROS + ['bail', 'miette', 'exception']
        # innermost-last processing: repeat until fixpoint, always rewriting the first outermost macro
        while True:
            mask = rsx.code_mask(text)
            ms = rsx.find_macros(text, mask, names)
            if not ms:
                break
            s, e, name, args, _ = ms[0]
            if name in PRINT_MACROS:
                rep = '()'
                self.bump('R4.drop_print_macro')
                self.dropped.append(rsx.norm_ws(text[s:e])[:160])
            elif name in UNREACH_MACROS:
                rep = 'verif_unreachable()'
                self.bump('R6.unreachable')
            elif name in ASSERT_MACROS:
                cond = rsx.split_top_commas(args)[0].strip()
                rep = 'verif_assert(%s)' % cond
                self.bump('R6.assert')
            elif name in ASSERT_EQ_MACROS:
                parts = rsx.split_top_commas(args)
                rep = 'verif_assert((%s) == (%s))' % (parts[0].strip(), parts[1].strip())
                self.bump('R6.assert')
            elif name == 'bail':
                rep = 'return Err(verif_report())'
                self.bump('R5.bail')
            elif name == 'miette':
                rep = 'verif_report()'
                self.bump('R5.miette')
            elif name == 'exception':
                rep = 'verif_exit(0xEE)'
                self.bump('R7.exception')
            text = text[:s] + rep + text[e:]
        # std::process::exit(N)
        mask = rsx.code_mask(text)
        out = []
        last = 0
        for m in re.finditer(r'\b(?:std::)?process::exit\s*\(', text):
            if not mask[m.start()]:
                continue
            cl = rsx.match_close(text, mask, m.end() - 1)
            out.append(text[last:m.start()])
            out.append('verif_exit(%s)' % text[m.end():cl].strip())
            last = cl + 1
            self.bump('R7.exit')
        out.append(text[last:])
        text = ''.join(out)
        # R4: `Output::Debugger(..)...;` / `Output::Normal...;` expression statements
        while True:
            mask = rsx.code_mask(text)
            hit = None
            for m in re.finditer(r'(?<=[;{}\n])(\s*)(Output::(?:Debugger\s*\(|Normal\s*\.))', text):
                if mask[m.start(2)]:
                    # must be at statement start: previous code char is one of ; { }  or `=>`
                    k = m.start(2) - 1
                    while k >= 0 and (not mask[k] or text[k].isspace()):
                        k -= 1
                    if k < 0 or text[k] in ';{}' or text[k - 1:k + 1] == '=>':
                        hit = m
                        break
            if not hit:
                break
            s = hit.start(2)
            # find terminating ';' or ',' (match arm) at depth 0
            depth = 0
            j = s
            while j < len(text):
                if mask[j]:
                    c = text[j]
                    if c in '([{':
                        depth += 1
                    elif c in ')]}':
                        if depth == 0:
                            break
                        depth -= 1
                    elif depth == 0 and c in ';,':
                        break
                j += 1
            self.dropped.append(rsx.norm_ws(text[s:j])[:160])
            text = text[:s] + '()' + text[j:]
            self.bump('R4.drop_output_stmt')
        # R5: calls into crate::error::* -> same-named top-level externals `error_<name>` (diagnostic construction is opaque)
        mask = rsx.code_mask(text)
        out = []
        last = 0
        for m in re.finditer(r'\berror::(\w+)\s*\(', text):
            if not mask[m.start()] or (m.start() >= 2 and text[m.start() - 2:m.start()] == '::'):
                continue
            out.append(text[last:m.start()])
            out.append('error_%s(' % m.group(1))
            last = m.end()
            self.bump('R5.error_constructor')
        out.append(text[last:])
        text = ''.join(out)
        # R12b: `match RECV.m() {` with a `&mut` method call as scrutinee -> hoisted into a `let` (same evaluation order);
        # this Verus version loses the frame of `*self` at `return`s inside such a match while the borrow is unresolved
        mask = rsx.code_mask(text)
        out = []
        last = 0
        k = 0
        for m in re.finditer(r'\bmatch\s+(self\.toks\.(?:next|peek)\(\))\s*\{', text):
            if not mask[m.start()]:
                continue
            k += 1
            out.append(text[last:m.start()])
            out.append('let verif_scrut%d = %s;\n        match verif_scrut%d {' % (k, m.group(1), k))
            last = m.end()
            self.bump('R12b.hoist_match_scrutinee')
        out.append(text[last:])
        text = ''.join(out)
        # R4: flushing stdout
        n_before = text.count('stdout().flush().unwrap()')
        if n_before:
            text = text.replace('stdout().flush().unwrap()', '()')
            self.bump('R4.drop_stdout_flush', n_before)
            self.dropped.append('stdout().flush().unwrap() x%d' % n_before)
        # closure wildcard params  |_|  ->  |_x|   (R14)
        mask = rsx.code_mask(text)
        out = []
        last = 0
        for m in re.finditer(r'\|\s*_\s*\|', text):
            if mask[m.start()]:
                out.append(text[last:m.start()])
                out.append('|_x|')
                last = m.end()
                self.bump('R14.closure_wildcard')
        out.append(text[last:])
        return ''.join(out)

    def apply_sub(self, text, anchor, repl, allow_many, where):
        toks = anchor.split()
        if not toks:
            raise ExtractError('empty anchor in %s' % where)
        pat = r'\s*'.join(re.escape(t) for t in toks)
        hits = list(re.finditer(pat, text))
        mask = rsx.code_mask(text)
        hits = [h for h in hits if mask[h.start()]]
        if not hits and allow_many == 'any':
            return text
        if not hits or (len(hits) != 1 and not allow_many):
            raise ExtractError('anchor matched %d times in %s: %r' % (len(hits), where, anchor[:80]))
        out = []
        last = 0
        for h in hits:
            out.append(text[last:h.start()])
            out.append(repl)
            last = h.end()
        out.append(text[last:])
        self.bump('anchored_sub', len(hits))
        return ''.join(out)

    # R11: the thread-local SYMBOL_TABLE becomes an explicit `sym: &mut SymTab` parameter
    SYM_CALLS = [
        (r'\bLabel::insert\s*\(', 'Label::insert(sym, '),
        (r'\bLabel::try_fill\s*\(', 'Label::try_fill(sym, '),
        (r'\.filled\s*\(\s*\)', '.filled(sym)'),
        (r'\.backpatch\s*\(\s*\)', '.backpatch(sym)'),
        (r'\b(self_?)\.parse_instr\s*\(', r'\1.parse_instr(sym, '),
        (r'\b(self_?)\.expect_lit_or_label\s*\(', r'\1.expect_lit_or_label(sym, '),
        (r'\bresolve_symbol_address\s*\(', 'resolve_symbol_address(sym, '),
        (r'\.parse_simple\s*\(\s*\)', '.parse_simple(sym)'),
        (r'\.parse\s*\(\s*\)', '.parse(sym)'),
    ]

    def lift_symtab_sig(self, sig, where):
        m = re.search(r'\(\s*(&\s*mut\s+self|&\s*self|mut\s+self|self)\s*(,\s*)?', sig)
        if m:
            rep = '(' + m.group(1) + ', sym: &mut SymTab' + (', ' if m.group(2) else '')
            sig = sig[:m.start()] + rep + sig[m.end():]
        else:
            i = sig.index('(')
            inner_empty = re.match(r'\(\s*\)', sig[i:])
            sig = sig[:i] + '(sym: &mut SymTab' + ('' if inner_empty else ', ') + sig[i + 1:]
        self.bump('R11.symtab_param')
        return sig

    def lift_symtab_body(self, text, where):
        # with_symbol_table(|sym| EXPR)  ->  (EXPR)
        while True:
            mask = rsx.code_mask(text)
            m = None
            for mm in re.finditer(r'\bwith_symbol_table\s*\(\s*\|\s*sym\s*\|', text):
                if mask[mm.start()]:
                    m = mm
                    break
            if not m:
                break
            op = text.index('(', m.start())
            cl = rsx.match_close(text, mask, op)
            inner = text[m.end():cl]
            text = text[:m.start()] + '(' + inner + ')' + text[cl + 1:]
            self.bump('R11.closure_lifted')
        for pat, rep in self.SYM_CALLS:
            mask = rsx.code_mask(text)
            out = []
            last = 0
            n = 0
            for mm in re.finditer(pat, text):
                if not mask[mm.start()]:
                    continue
                out.append(text[last:mm.start()])
                out.append(mm.expand(rep))
                last = mm.end()
                n += 1
            out.append(text[last:])
            text = ''.join(out)
            self.bump('R11.table_arg_passed', n)
        return text

    def wrap_ensures(self, contract, guard, where):
        """case-split twin: every postcondition clause C becomes `(guard) ==> (C)` (obligation splitting; the guards of all
        twins are proved exhaustive by a lemma in the template)."""
        text = '\n'.join(l for l in contract if not l.strip().startswith('//'))
        m = re.search(r'\bensures\b', text)
        if not m:
            raise ExtractError('//@cases without ensures in %s' % where)
        head, tail = text[:m.end()], text[m.end():]
        dm = re.search(r'\n\s*decreases\b', tail)
        dec = ''
        if dm:
            dec = tail[dm.start():]
            tail = tail[:dm.start()]
        clauses = [c.strip() for c in rsx.split_top_commas(tail) if c.strip()]
        out = head + '\n' + ''.join('            (%s) ==> (%s),\n' % (guard, c) for c in clauses) + dec
        self.bump('case_split_clauses_wrapped', len(clauses))
        return out.split('\n')

    def closure_contract(self, text, spec, where):
        """R15: `callee(|p| EXPR)` -> `callee(|p: T| -> (verif_ret: R) ensures verif_ret == (EXPR) { EXPR })`.
        The closure's postcondition is derived mechanically from its own (single-expression) body."""
        callee, pty, rty = spec[0], spec[1], spec[2]
        mask = rsx.code_mask(text)
        hits = [m for m in re.finditer(r'\b' + re.escape(callee) + r'\s*\(\s*\|\s*(\w+)\s*\|', text) if mask[m.start()]]
        if len(hits) == 0 and not any(mask[m.start()] for m in re.finditer(r'\b' + re.escape(callee) + r'\s*\(', text)):
            # the call is gone (code restructured): R15 has nothing to annotate; the body is verified as it stands
            self.bump('R15.closure_contract_skipped_no_call')
            return text
        if len(hits) != 1:
            raise ExtractError('closure argument of %s: expected 1 call, found %d in %s' % (callee, len(hits), where))
        m = hits[0]
        op = text.index('(', m.start())
        cl = rsx.match_close(text, mask, op)
        # the closure expression ends at the first top-level comma (further call arguments follow) or at the call's `)`
        depth = 0
        end = cl
        for j in range(m.end(), cl):
            if not mask[j]:
                continue
            c = text[j]
            if c in '([{':
                depth += 1
            elif c in ')]}':
                depth -= 1
            elif c == ',' and depth == 0:
                end = j
                break
        body = text[m.end():end].strip()
        if body.startswith('{') and body.endswith('}'):
            inner = body[1:-1].strip()
            if ';' not in inner:
                body = inner
        if body.startswith('{') or ';' in body:
            raise ExtractError('closure argument of %s is not a single expression in %s' % (callee, where))
        rep = '%s(|%s: %s| -> (verif_ret: %s) ensures verif_ret == (%s) { %s }' % (callee, m.group(1), pty, rty, body, body)
        self.bump('R15.closure_contract')
        return text[:m.start()] + rep + text[end:]

    def name_return(self, sig, ret):
        mask = rsx.code_mask(sig)
        depth = 0
        for i in range(len(sig) - 1):
            if not mask[i]:
                continue
            c = sig[i]
            if c in '([<':
                depth += 1
            elif c in ')]':
                depth -= 1
            elif c == '>' and sig[i - 1] != '-':
                depth -= 1
            elif c == '-' and sig[i + 1] == '>' and depth == 0:
                rest = sig[i + 2:]
                m = re.match(r'\s*(.*?)(\s*where\b.*)?$', rest, re.S)
                ty = m.group(1).rstrip()
                where = m.group(2) or ''
                if ty == '!':
                    return sig
                self.bump('R2.name_return')
                return sig[:i] + '-> (%s: %s)' % (ret, ty) + where
        return sig

    def gen_dispatch(self, rel, impl, table):
        text, mask = self.src(rel)
        it = rsx.find_in_impl(text, mask, impl, 'const', table)
        body = text[it.hstart:it.end]
        m = re.search(r'=\s*\[(.*)\]\s*;', body, re.S)
        if not m:
            raise ExtractError('dispatch table %s: no array literal' % table)
        inner = m.group(1)
        imask = rsx.code_mask(inner)
        code = ''.join(c if imask[i] else ' ' for i, c in enumerate(inner))
        entries = [e.strip() for e in code.split(',') if e.strip()]
        self.slices.append({'file': rel, 'path': '%s::const %s' % (impl, table),
                            'sha256': hashlib.sha256(body.encode()).hexdigest(),
                            'lines': [text.count('\n', 0, it.hstart) + 1, text.count('\n', 0, it.end) + 1]})
        return entries

    # ---------------------------------------------------------------- directives
    def do_item(self, args, kv):
        rel, kind, name = args[:3]
        text, mask = self.src(rel)
        if 'in' in kv:
            it = rsx.find_in_impl(text, mask, kv['in'], kind, name)
        else:
            it = rsx.find_item(text, mask, kind, name)
        raw = text[it.start:it.end]
        self.slices.append({'file': rel, 'path': '%s %s' % (kind, name),
                            'sha256': hashlib.sha256(raw.encode()).hexdigest(),
                            'lines': [text.count('\n', 0, it.start) + 1, text.count('\n', 0, it.end) + 1]})
        derives = []
        for m in re.finditer(r'#\[derive\(([^)]*)\)\]', raw):
            derives += [d.strip() for d in m.group(1).split(',')]
        if 'derive' in kv:
            keep = [d for d in kv['derive'].split(',') if d]
        else:
            keep = [d for d in derives if d in ALLOWED_DERIVES]
        body = self.strip_attrs(raw)
        body = self.strip_vis(body)
        if 'tsub' in kv:
            a_, b_ = kv['tsub'].split('=>')
            if a_ not in body:
                raise ExtractError('tsub: type text %r not found in %s %s' % (a_, kind, name))
            body = body.replace(a_, b_)
            self.bump('R10.field_type_standin')
        head = ''
        if keep:
            head = '#[derive(%s)]\n' % ', '.join(keep)
        self.emit(head + body.strip('\n'), ('src', '%s:%d' % (rel, text.count('\n', 0, it.start) + 1)))

    # ---------------------------------------------------------------- R17: helpers a refactoring introduced
    def find_helper(self, rel, impl, name):
        """the definition of `name`: in the caller's impl, else the only `fn name` of the caller's file, else the only one under src/"""
        text, mask = self.src(rel)
        if impl != '-':
            try:
                return (rel, impl, rsx.find_in_impl(text, mask, impl, 'fn', name), text, mask)
            except ExtractError:
                pass
        def scan(r):
            t, mk = self.src(r)
            out = []
            for it in rsx.items(t, mk):
                if it.kind == 'impl' and it.body_open is not None:
                    for sub in rsx.items(t, mk, it.body_open + 1, it.end - 1):
                        if sub.kind == 'fn' and sub.name == name:
                            out.append((r, it.name, sub, t, mk))
                elif it.kind == 'fn' and it.name == name:
                    out.append((r, '-', it, t, mk))
            return out
        c = scan(rel)
        if len(c) == 1:
            return c[0]
        if c:
            return None
        allc = []
        for root, _d, files in os.walk(os.path.join(self.repo, 'src')):
            for fn in sorted(files):
                if fn.endswith('.rs'):
                    r = os.path.relpath(os.path.join(root, fn), self.repo)
                    if r != rel:
                        try:
                            allc += scan(r)
                        except Exception:
                            pass
        return allc[0] if len(allc) == 1 else None

    def inline_helpers(self, body, rel, impl, where, depth=0):
        """R17: a call of a private helper that is not under contract (`self.h(a)`, `Self::h(a)`, `h(a)`) is replaced by the
        helper's body in a block that first binds the arguments to the parameters: `{ let p: T = a; <body> }`. Exact when the
        body has no `return`, the helper is not generic or recursive, its parameters are plain identifiers, and every `?` in
        it is re-raised by a `?` at the call site (then the early exit leaves the caller with the same value)."""
        if not self.lift or depth > 3:
            return body
        changed = True
        rounds = 0
        while changed and rounds < 8:
            changed = False
            rounds += 1
            bm = rsx.code_mask(body)
            for name in sorted(self.lift):
                hits = [m for m in re.finditer(r'(?:(?<![\w.)\]])(?P<recv>[A-Za-z_]\w*(?:\s*\.\s*[A-Za-z_]\w*)*)\s*\.\s*|\bSelf\s*::\s*|(?<![\w.:]))' + re.escape(name) + r'\s*\(', body) if bm[m.start()] and bm[m.end() - 1]]
                if not hits:
                    continue
                m = hits[-1]
                found = self.find_helper(rel, impl, name)
                if not found:
                    continue
                hrel, himpl, it, text, mask = found
                recv = m.group('recv')
                if recv is not None:
                    recv = re.sub(r'\s+', '', recv)
                try:
                    attrs, sig, hbody = rsx.split_fn(text, mask, it)
                except ExtractError:
                    continue
                hm = rsx.code_mask(hbody)
                def code_has(pat):
                    return any(hm[x.start()] for x in re.finditer(pat, hbody))
                if code_has(r'\breturn\b') or re.search(r'\bfn\s+' + re.escape(name) + r'\s*<', sig) or code_has(r'\b' + re.escape(name) + r'\s*\('):
                    continue
                is_method = recv is not None
                other_recv = is_method and recv != 'self'
                close = rsx.match_close(body, bm, m.end() - 1)
                args = [a.strip() for a in rsx.split_top_commas(body[m.end():close]) if a.strip()]
                pm = re.search(r'\((.*)\)', sig[sig.index(name):], re.S)
                # parameter list: text between the parens that follow the name (code-aware)
                sm = rsx.code_mask(sig)
                po = sig.index('(', sig.index(name))
                pc = rsx.match_close(sig, sm, po)
                params = [q.strip() for q in rsx.split_top_commas(sig[po + 1:pc]) if q.strip()]
                has_self = bool(params) and re.match(r'^(&\s*(mut\s+)?)?(mut\s+)?self$', params[0].replace("'_ ", ''))
                if has_self:
                    if not is_method or re.match(r'^(mut\s+)?self$', params[0]):
                        continue        # by-value self: not handled
                    if other_recv and (not re.match(r'^&\s*self$', params[0].replace("'_ ", '')) or code_has(r'\bSelf\b')):
                        continue        # through another receiver only `&self` helpers that do not name `Self`
                    params = params[1:]
                elif is_method:
                    continue
                if len(params) != len(args):
                    continue
                binds = []
                ok = True
                for k, (q, a) in enumerate(zip(params, args)):
                    qm = re.match(r'^(mut\s+)?([A-Za-z_]\w*)\s*:\s*(.+)$', q, re.S)
                    if not qm:
                        ok = False
                        break
                    binds.append((qm.group(1) or '', qm.group(2), qm.group(3).strip(), a))
                if not ok:
                    continue
                if code_has(r'\?'):
                    after = body[close + 1:close + 8].lstrip()
                    if not after.startswith('?'):
                        continue
                inner = self.inline_helpers(hbody, hrel, himpl, where, depth + 1) if depth < 3 else hbody
                recv_bind = ''
                if other_recv:
                    im = rsx.code_mask(inner)
                    parts = []
                    last = 0
                    for x in re.finditer(r'\bself\b', inner):
                        if im[x.start()]:
                            parts.append(inner[last:x.start()])
                            parts.append('verif_recv')
                            last = x.end()
                    parts.append(inner[last:])
                    inner = ''.join(parts)
                    recv_bind = 'let verif_recv = &(%s); ' % recv
                block = '{ ' + recv_bind + ' '.join('let verif_arg%d: %s = %s;' % (k, t, a) for k, (mu, pn, t, a) in enumerate(binds)) + ' ' + \
                    ' '.join('let %s%s: %s = verif_arg%d;' % (mu, pn, t, k) for k, (mu, pn, t, a) in enumerate(binds)) + ' ' + inner + ' }'
                body = body[:m.start()] + block + body[close + 1:]
                self.bump('R17.helper_inlined')
                self.lifted.append('%s inlined into %s' % (name, where))
                changed = True
                break
        return body

    def lift_consts(self):
        """R17: `const NAME: T = <literal expression>;` items a refactoring introduced, found anywhere under src/"""
        out = []
        for name in sorted(self.lift):
            if not re.match(r'^[A-Z][A-Z0-9_]*$', name):
                continue
            for root, _d, files in os.walk(os.path.join(self.repo, 'src')):
                for fn in files:
                    if not fn.endswith('.rs'):
                        continue
                    t = open(os.path.join(root, fn), encoding='utf-8').read()
                    mk = rsx.code_mask(t)
                    for m in re.finditer(r'\bconst\s+' + re.escape(name) + r'\s*:\s*([^=;]+)=\s*([^;]+);', t):
                        if mk[m.start()] and not any(x[0] == name for x in out):
                            out.append((name, 'const %s: %s = %s;' % (name, m.group(1).strip(), m.group(2).strip())))
        for name, text in out:
            self.emit(text, ('src', 'const %s (R17)' % name))
            self.bump('R17.const_lifted')
            self.lifted.append('const %s' % name)

    def do_fn(self, args, kv, block):
        rel, impl, name = args[:3]
        text, mask = self.src(rel)
        if impl == '-':
            it = rsx.find_item(text, mask, 'fn', name)
        else:
            it = rsx.find_in_impl(text, mask, impl, 'fn', name)
        attrs, sig, body = rsx.split_fn(text, mask, it)
        raw = text[it.start:it.end]
        src_line = text.count('\n', 0, it.hstart) + 1
        self.slices.append({'file': rel, 'path': ('%s::' % impl if impl != '-' else '') + 'fn ' + name,
                            'sha256': hashlib.sha256(raw.encode()).hexdigest(),
                            'lines': [text.count('\n', 0, it.start) + 1, text.count('\n', 0, it.end) + 1]})
        where = '%s %s::%s' % (rel, impl, name)
        # contract lines and per-fn directives
        contract = []
        subs = []
        exits = []
        dispatch = None
        fn_attrs = []
        closures = []
        cases = None
        symtab = False
        sigsubs = []
        i = 0
        while i < len(block):
            ln = block[i]
            s = ln.strip()
            if s.startswith('//@sub') or s.startswith('//@suball') or s.startswith('//@sigsub'):
                many = s.startswith('//@suball')
                # //@subany: every match, and no match at all is fine too (the expression may live in a helper that R17 inlines
                # in a second pass; what is left unrewritten stops the engine, it cannot verify by accident)
                anyc = s.startswith('//@subany')
                if anyc:
                    many = 'any'
                is_sig = s.startswith('//@sigsub')
                rest = s[len('//@subany' if anyc else ('//@suball' if many else ('//@sigsub' if is_sig else '//@sub'))):]
                # may span several lines until the closing >>> of the replacement
                buf = rest
                while buf.count('<<<') < 2 or buf.count('>>>') < 2:
                    i += 1
                    if i >= len(block):
                        raise ExtractError('unterminated //@sub in %s' % where)
                    nxt = block[i]
                    nxt = re.sub(r'^\s*//@ ?', '', nxt)
                    buf += '\n' + nxt
                m = re.match(r'\s*<<<(.*?)>>>\s*==>\s*<<<(.*?)>>>\s*$', buf, re.S)
                if not m:
                    raise ExtractError('malformed //@sub in %s: %r' % (where, buf[:80]))
                (sigsubs if is_sig else subs).append((m.group(1), m.group(2), many))
            elif s.startswith('//@exit'):
                p = s[len('//@exit'):].strip().split(None, 1)
                exits.append((p[0], p[1]))
            elif s.startswith('//@dispatch'):
                dispatch = s[len('//@dispatch'):].strip()
            elif s.startswith('//@attr'):
                fn_attrs.append(s[len('//@attr'):].strip())
            elif s.startswith('//@contract'):
                cname = s[len('//@contract'):].strip()
                cp = os.path.join(VERIF, 'verus', 'contracts', cname)
                if not os.path.exists(cp):
                    raise ExtractError('contract file missing: %s' % cname)
                contract += open(cp, encoding='utf-8').read().rstrip('\n').split('\n')
                self.shared_contracts.append(cname)
            elif s.startswith('//@closure'):
                closures.append(s[len('//@closure'):].strip().split())
            elif s.startswith('//@symtab'):
                symtab = True
            elif s.startswith('//@cases'):
                cases = [c.strip() for c in s[len('//@cases'):].split('|') if c.strip()]
            elif s.startswith('//@'):
                raise ExtractError('unknown directive inside //@fn: %s' % s)
            else:
                contract.append(ln)
            i += 1
        fn_key = '%s::%s' % (impl, name)
        if cases:
            self.case_splits[fn_key] = cases
            if self.case and self.case[0] == fn_key:
                contract = self.wrap_ensures(contract, cases[self.case[1]], where)
            elif not self.vacuity:
                # main file: the body is verified case by case in the twins; here only the contract is exported
                kv = dict(kv, assumed='1')
                self.bump('case_split_main_assumed')
        if self.vacuity and self.vacuity == '%s::%s' % (impl, name) and 'ext' not in kv and 'assumed' not in kv:
            # vacuity twin (DESIGN §6.5): add the clause `false` to the postcondition; it must FAIL
            idx = [k for k, c in enumerate(contract) if re.match(r'\s*ensures\b', c)]
            if idx:
                contract[idx[0]] = re.sub(r'\bensures\b', 'ensures false, /*vacuity-probe*/', contract[idx[0]], count=1)
            else:
                dec = [k for k, c in enumerate(contract) if re.match(r'\s*decreases\b', c)]
                pos = dec[0] if dec else len(contract)
                contract.insert(pos, '        ensures false, /*vacuity-probe*/')
        # ---- signature
        sig2 = self.strip_vis(sig)
        if 'rename' in kv:
            sig2 = re.sub(r'\bfn\s+' + re.escape(name) + r'\b', 'fn ' + kv['rename'], sig2, count=1)
        mut_self = bool(re.search(r'\(\s*mut\s+self\b', sig2))
        if mut_self:
            sig2 = re.sub(r'\(\s*mut\s+self\b', '(self', sig2, count=1)
            self.bump('R12.mut_self')
        if symtab:
            sig2 = self.lift_symtab_sig(sig2, where)
        for anchor, repl, many in sigsubs:
            sig2 = self.apply_sub(sig2, anchor, repl, many, where + ' (signature)')
        if 'ret' in kv:
            sig2 = self.name_return(sig2, kv['ret'])
        # ---- body
        body2 = body
        if self.lift and 'assumed' not in kv and 'ext' not in kv:
            body2 = self.inline_helpers(body2, rel, impl, where)
        if 'nomacro' not in kv:
            body2 = self.rewrite_macros(body2)
        if mut_self:
            bm = rsx.code_mask(body2)
            out = []
            last = 0
            for m in re.finditer(r'\bself\b', body2):
                if bm[m.start()]:
                    out.append(body2[last:m.start()])
                    out.append('self_')
                    last = m.end()
            out.append(body2[last:])
            body2 = ''.join(out)
            body2 = '{\n        let mut self_ = self;' + body2[1:]
        if dispatch:
            entries = self.gen_dispatch(rel, impl, dispatch)
            bm = rsx.code_mask(body2)
            m = re.search(r'(?:\w+::)?' + re.escape(dispatch) + r'\s*\[\s*(\w+)\s*\]\s*\(\s*(\w+)\s*,\s*(\w+)\s*\)', body2)
            if not m or not bm[m.start()]:
                raise ExtractError('dispatch call through %s not found in %s' % (dispatch, where))
            arms = []
            for k, e in enumerate(entries):
                fn = e.split('::')[-1]
                arms.append('            %d => %s.%s(%s),' % (k, m.group(2), fn, m.group(3)))
            arms.append('            _ => verif_unreachable(),')
            rep = 'match %s {\n%s\n        }' % (m.group(1), '\n'.join(arms))
            body2 = body2[:m.start()] + rep + body2[m.end():]
            self.bump('R9.dispatch_table')
        if symtab:
            body2 = self.lift_symtab_body(body2, where)
        for cl in closures:
            body2 = self.closure_contract(body2, cl, where)
        for anchor, repl, many in subs:
            body2 = self.apply_sub(body2, anchor, repl, many, where)
        for code, expr in exits:
            pat = r'verif_exit\(\s*' + re.escape(code) + r'\s*\)'
            hits = [h for h in re.finditer(pat, body2)]
            if not hits:
                raise ExtractError('//@exit %s: no such exit site in %s' % (code, where))
            body2 = re.sub(pat, '{ assert(%s); verif_exit(%s) }' % (expr, code), body2)
            self.bump('R7.exit_condition', len(hits))
        docs = '\n'.join(l for l in attrs.split('\n') if l.strip().startswith('///'))
        head = ''
        if 'assumed' in kv:
            # contract proved in another unit (same contract file); only the signature is used here
            head = '    #[verifier::external_body]\n'
            body2 = '{ unimplemented!() }'
            self.bump('assumed_contract_from_other_unit')
        if 'ext' in kv:
            head = '    #[verifier::external_body]\n'
            self.bump('R8.external_body')
            if 'nobody' in kv:
                # trusted contract on the real signature; the body (str / iterator code) is not needed even for type checking
                body2 = '{ unimplemented!() }'
        for a in fn_attrs:
            head += '    ' + a + '\n'
        gen_start = len(self.out_lines) + 1
        indent = re.match(r'[ \t]*', text[text.rfind('\n', 0, it.hstart) + 1:it.hstart]).group(0)
        piece = (docs + '\n' if docs.strip() else '') + head + indent + sig2.rstrip() + '\n' + \
            '\n'.join(contract) + ('\n' if contract else '') + indent + body2
        self.emit(piece, ('src', '%s:%d' % (rel, src_line)))
        gen_end = len(self.out_lines)
        self.funcs.append({'name': kv.get('rename', name), 'impl': impl, 'file': rel, 'src_line': src_line,
                           'gen_start': gen_start, 'gen_end': gen_end,
                           'props': [p for p in kv.get('props', '').split(',') if p], 'ext': 'ext' in kv or 'assumed' in kv,
                           'assumed': 'assumed' in kv,
                           'contract_lines': len([c for c in contract if c.strip()])})

    # ---------------------------------------------------------------- driver
    def run(self, template_path):
        lines = open(template_path, encoding='utf-8').read().split('\n')
        # //@tpl <fragment>: splice a shared template fragment (type sections, assumed-contract blocks)
        expanded = []
        for ln in lines:
            if ln.strip().startswith('//@tpl '):
                fp = os.path.join(VERIF, 'verus', 'fragments', ln.split()[1])
                expanded += open(fp, encoding='utf-8').read().rstrip('\n').split('\n')
            else:
                expanded.append(ln)
        lines = expanded
        i = 0
        while i < len(lines):
            ln = lines[i]
            s = ln.strip()
            if s.startswith('//@include'):
                p = os.path.join(VERIF, 'verus', 'prelude', s.split()[1])
                self.emit(open(p, encoding='utf-8').read().rstrip('\n'), ('prelude', s.split()[1]))
            elif s.startswith('//@smt_option'):
                self.smt_options.append(s.split()[1])
            elif s.startswith('//@item'):
                if self.lift and not getattr(self, '_consts_done', False):
                    self._consts_done = True
                    self.lift_consts()
                args, kv = parse_args(s[len('//@item'):])
                self.do_item(args, kv)
            elif s.startswith('//@fn'):
                if self.lift and not getattr(self, '_consts_done', False):
                    self._consts_done = True
                    self.lift_consts()
                args, kv = parse_args(s[len('//@fn'):])
                block = []
                i += 1
                while i < len(lines) and lines[i].strip() != '//@end':
                    block.append(lines[i])
                    i += 1
                if i >= len(lines):
                    raise ExtractError('//@fn without //@end: %s' % s)
                self.do_fn(args, kv, block)
            elif s.startswith('//@'):
                raise ExtractError('unknown directive: %s' % s)
            else:
                self.emit(ln, ('template', '%s:%d' % (os.path.basename(template_path), i + 1)))
            i += 1
        return '\n'.join(self.out_lines) + '\n'


def parse_args(s):
    toks = shlex.split(s)
    args = []
    kv = {}
    for t in toks:
        m = re.match(r'^([a-z_]+)=(.*)$', t)
        if m and len(args) >= 3:
            kv[m.group(1)] = m.group(2)
        elif t in ('ext', 'nomacro', 'assumed', 'nobody') and len(args) >= 3:
            kv[t] = '1'
        else:
            args.append(t)
    return args, kv


def generate_vacuity(unit, outdir, repo=REPO, fn_key=None):
    """vacuity twin for ONE function (`impl hdr::name`): only its own postcondition gets the `false` probe, so
    the probe cannot leak into callers through the callee's contract."""
    return generate(unit, outdir, repo, vacuity=fn_key)


def generate(unit, outdir, repo=REPO, vacuity=False, case=None, lift=None):
    tpl = os.path.join(VERIF, 'verus', 'units', unit + '.rs')
    g = Gen(unit, repo, vacuity, case, lift)
    text = g.run(tpl)
    os.makedirs(outdir, exist_ok=True)
    tag = ''
    if vacuity:
        tag = '_vac_' + re.sub(r'[^A-Za-z0-9]+', '_', vacuity)
    if case:
        tag = '_case_' + re.sub(r'[^A-Za-z0-9]+', '_', case[0]) + '_%d' % case[1]
    out = os.path.join(outdir, unit + tag + '.rs')
    open(out, 'w', encoding='utf-8').write(text)
    meta = {'unit': unit, 'file': out, 'rules': g.rules, 'slices': g.slices, 'funcs': g.funcs,
            'dropped_statements': g.dropped, 'origin': g.origin, 'smt_options': g.smt_options, 'case_splits': g.case_splits,
            'shared_contracts': g.shared_contracts, 'lifted': g.lifted}
    return out, meta


if __name__ == '__main__':
    import json
    try:
        out, meta = generate(sys.argv[1], sys.argv[2] if len(sys.argv) > 2 else os.path.join(VERIF, 'out', 'verus'))
    except ExtractError as e:
        print('EXTRACT-ERROR', e)
        sys.exit(2)
    meta.pop('origin')
    print(json.dumps(meta, indent=1)[:4000])
