#!/bin/sh
# Re-run every registered quick check on /repo's current tree (regenerates every evidence file). Usage: tools/run_all.sh [tier]
cd "$(dirname "$0")/.."
TIER=${1:-quick}
rc=0
for id in $(python3 -c "import sys; sys.path.insert(0,'tools'); import props; print(' '.join(sorted(props.PROPS)))"); do
  ./check $id --tier $TIER | tail -1 || rc=1
done
exit $rc
