#!/bin/sh
# Re-run every registered check on /repo's current tree (regenerates every evidence file). Usage: tools/run_all.sh [tier]
# Full output of each check is kept in out/logs/<id>-<tier>.log (and .prev) so that an intermittent result can be diagnosed.
cd "$(dirname "$0")/.."
TIER=${1:-quick}
mkdir -p out/logs
rc=0
for id in $(python3 -c "import sys; sys.path.insert(0,'tools'); import props; print(' '.join(sorted(props.PROPS)))"); do
  log=out/logs/$id-$TIER.log
  [ -f $log ] && mv $log $log.prev
  ./check $id --tier $TIER > $log 2>&1 || rc=1
  tail -1 $log
  grep -h "^UNDECIDED property=$id reason\|^VIOLATION" $log | cut -c1-400
done
exit $rc
