#!/usr/bin/env python3
"""Regenerate /verif/MANIFEST.json from tools/props.py so the two never drift."""
import json
import os
import sys
HERE = os.path.dirname(os.path.abspath(__file__))
sys.path.insert(0, HERE)
import props as P

VERIF = os.path.dirname(HERE)
checks = []
for pid in sorted(P.PROPS):
    info = P.PROPS[pid]
    checks.append({
        'property_id': pid,
        'quick_cmd': './check %s --tier quick' % pid,
        'thorough_cmd': './check %s --tier thorough' % pid,
        'evidence_file': '/verif/evidence/%s.json' % pid,
        'replay_cmd_template': './check %s --replay {path}' % pid,
        'engine': info.get('engine', 'verus' + ('+kani' if info.get('kani') else '') + ('+native-bounded' if info.get('native') else '')),
        'level_claimed': {'category': info['level'], 'text': info['explanation'], 'design_ref': 'DESIGN.md §5 ' + pid},
        'level_note': info.get('level_note', '; '.join(info.get('assumptions', [])) or 'see evidence.coverage.trusted_base'),
        'technique': info.get('technique', 'contract-based deductive verification (Verus/Z3 on functions mechanically extracted from the working tree'
                              + ('; Kani/CBMC harnesses on the real crate: complete ones decide, bounded ones only add counterexamples' if info.get('kani') else '')
                              + ('; bounded native enumeration of the real functions / sessions / binary stands in where no contract reaches (str code, whole sessions, process I/O): labelled bounded, never counted as proved' if info.get('native') else '')
                              + ')'),
    })
na = [{'property_id': k, 'reason': v} for k, v in sorted(P.NOT_APPLICABLE.items()) if k not in P.PROPS]
m = {
    'version': 1,
    'setup_cmd': 'python3 tools/selftest.py',
    'hooks': {
        'guard': 'rozukke_lace_verif',
        'enable': 'no hooks are committed to /repo: contracts live in /verif/verus/units and are spliced onto functions '
                  'extracted from the working tree on every run; Kani harness modules (--cfg kani) and engine-N test modules '
                  '(--cfg rozukke_lace_verif) are injected into scratch copies of the working tree only',
        'baseline_off_cmd': 'cd /repo && cargo test --workspace --no-fail-fast --offline',
        'source_commits': [],
        'add_only': True,
    },
    'engines': [
        {'name': 'verus', 'path': 'tools/vx_gen.py tools/vx_run.py verus/', 'serves_properties': sorted(P.PROPS),
         'kind_free_text': 'Verus 0.2026.09.13 (Z3) on functions mechanically extracted from /repo/src each run'},
        {'name': 'kani', 'path': 'tools/kx_run.py kani/', 'serves_properties': sorted(p for p in P.PROPS if P.PROPS[p].get('kani')),
         'kind_free_text': 'Kani 0.68 / CBMC 6.11 harness modules injected into a scratch copy of the real crate'},
        {'name': 'native-bounded', 'path': 'tools/nx_run.py native/', 'serves_properties': sorted(p for p in P.PROPS if P.PROPS[p].get('native')),
         'kind_free_text': 'engine N: exhaustive enumeration up to a stated bound of the real functions / debugger sessions / built binary against '
                           'references written from the property (test modules injected into a scratch copy under --cfg rozukke_lace_verif, overflow checks on); '
                           'a bounded stand-in, never counted as proof'},
    ],
    'checks': checks,
    'not_applicable': na,
    'notes': 'Exit 2 + "UNDECIDED" means an engine failure (lost extraction anchor, unsupported construct, rlimit), never a violation. '
             'Genuine defects repaired by fix: commits in /repo are listed in known_findings.json with status fixed.',
}
json.dump(m, open(os.path.join(VERIF, 'MANIFEST.json'), 'w'), indent=1)
print('wrote MANIFEST.json: %d checks, %d not_applicable' % (len(checks), len(na)))
