"""Per-property metadata used by tools/check.py (levels, explanations, what is not decided)."""

RLIMIT = {}          # unit -> rlimit override
DIVERGING = set()    # functions whose every path diverges (vacuity probe cannot fail)

PROPS = {
    'C01': {
        'level': 'proof',
        'kani': False,
        'explanation': 'AsmLine::emit / bit_offs / ImmediateOrReg::bits / Flag::bits are proved equal to the ISA encoding '
                       'specification enc_spec for every statement kind, register, line and label line (Verus on the extracted '
                       'real text). Parser operand order, line numbering and backpatching are proved on a token-stream stand-in. '
                       'The text->token layer (lexer, preprocess) is not within Verus reach.',
        'assumptions': ['tokens carry the values their text denotes (lexer not verified deductively)'],
    },
    'C02': {
        'level': 'proof',
        'kani': False,
        'explanation': 'Every handler of RunState (add and br jmp jsr ld ldi ldr lea not st sti str stack push_val pop_val trap) and the '
                       'dispatch in execute are proved equal to step_spec — the ISA step oracle over the whole machine state (8 registers, '
                       '65536 memory words, PC, CC, orig, PSR), so the frame (nothing else changes) is part of every postcondition. '
                       'All 65536 instruction words x symbolic state, no bound. Exit sites (stack feature off -> 1, unknown trap -> 0xEE) '
                       'are checked to be reachable only when step_spec says Exit. RTI (todo!) is outside the claim.',
        'assumptions': ['bodies of the unsafe accessors reg/reg_mut/mem/mem_mut are trusted (R8); every call site proves its bound',
                        's_ext contract (== sext spec) is assumed in Verus and discharged by the complete Kani harness when Kani is run',
                        'features::stack() is constant during a run', 'text printed by traps is not modelled (R4)'],
    },
}

NOT_APPLICABLE = {
    'C08': 'file-system effect ordering and exit status of a main() match arm under injected I/O faults: no function boundary, '
           'no returnable state and no contract language for file contents with the installed verifiers (DESIGN §5 C08)',
}
for _p in ['C03', 'C04', 'C05', 'C06', 'C07', 'C09', 'C10', 'C11', 'C12', 'C13', 'C14', 'C15', 'C16', 'C17', 'C18', 'C19', 'C20']:
    NOT_APPLICABLE.setdefault(_p, 'check not built yet in this revision (planned, see DESIGN.md §5)')
