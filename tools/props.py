"""Per-property metadata used by tools/check.py (levels, explanations, what is not decided)."""

RLIMIT = {}          # unit -> rlimit override
DIVERGING = {'impl_RunState_rti'}  # rti is todo!(): diverges by design, its twin cannot fail

ZERO_OBLIGATIONS_OK = {'RunState::rti'}   # body is a single diverging call; nothing to prove

PROPS = {
    'C01': {
        'level': 'proof',
        'kani': True,
        'native': True,
        'explanation': 'AsmLine::emit / bit_offs / ImmediateOrReg::bits / Flag::bits are proved equal to the ISA encoding '
                       'specification enc_spec for every statement kind, register, line and label line (Verus on the extracted '
                       'real text). Parser operand order, line numbering and backpatching are proved on a token-stream stand-in. '
                       'The text->token layer (lexer, preprocess) is not within Verus reach.',
        'assumptions': ['tokens carry the values their text denotes (lexer not verified deductively)'],
    },
    'C02': {
        'level': 'proof',
        'kani': True,
        'native': True,
        'explanation': 'Every handler of RunState (add and br jmp jsr ld ldi ldr lea not st sti str stack push_val pop_val trap) and the '
                       'dispatch in execute are proved equal to step_spec — the ISA step oracle over the whole machine state (8 registers, '
                       '65536 memory words, PC, CC, orig, PSR), so the frame (nothing else changes) is part of every postcondition. '
                       'All 65536 instruction words x symbolic state, no bound. Exit sites (stack feature off -> 1, unknown trap -> 0xEE) '
                       'are checked to be reachable only when step_spec says Exit. RTI (todo!) is outside the claim.',
        'assumptions': ['bodies of the unsafe accessors reg/reg_mut/mem/mem_mut are trusted (R8); every call site proves its bound',
                        's_ext contract (== sext spec) is assumed in Verus and discharged by the complete Kani harness when Kani is run',
                        'features::stack() is constant during a run', 'text printed by traps is not modelled (R4)'],
    },
    'C09': {
        'level': 'proof',
        'kani': False,
        'native': True,
        'explanation': 'Per-call frame contracts on the real debugger code: run_command proves, per command read, that every execution-control and '
                       'inspection command (help step step-into step-out continue registers print assembly echo break list/add/remove quit exit) '
                       'leaves the machine state equal (*final(state) == *old(state)); check_interrupts and next_action outside run_command never '
                       'write the state (state equality in every no-command postcondition). The whole-session conclusion (same output/final state for '
                       'every script) is an induction over these contracts that is argued in DESIGN.md, not machine-checked.',
        'assumptions': ['read_command (Command::read_from) is external: delivers next_cmd(reader) and consumes one command',
                        'debugger console output is dropped (R4)', 'session-level induction over arbitrarily long scripts is not machine-checked; whole sessions are enumerated to a bound natively (verif_native_session_transparency, bounded)'],
    },
    'C10': {
        'level': 'proof',
        'kani': False,
        'native': True,
        'explanation': 'The status machine of next_action is proved equal to the control oracle written from the property (DESIGN App. B): StepInto{c} '
                       'proceeds and decrements / pauses at 0; StepOver{ret,depth} pauses only at PC == ret with depth 0 and counts calls / returns '
                       '(depth_after); Finish pauses after the RET/RETS under the CURRENT PC; Continue proceeds; breakpoint, HALT and PC outside user '
                       'space force a pause before anything else. run_command proves the resuming commands set exactly the promised status (step into N '
                       'stores N-1 with N>=1; step arms StepOver{PC+1,0} only on JSR/JSRR/CALL and is ONE instruction otherwise) and are refused at HALT; '
                       'after a command was read, next_action hands back after_resume(last command, machine as it is now). SignificantInstr::try_from '
                       'and is_call are proved equal to the decoding specs. Whole sessions (every command sequence <= 4 over 11 commands, 4 programs incl. '
                       'recursion) are compared with an executable reference debugger (bounded).',
        'assumptions': ['`step into` count >= 1 is a guarantee of the command parser (cmd_wf: assumed in Verus, enumerated to a bound by verif_native_command)',
                        'composition with C02 across run-loop iterations: lemma_step_into_counts (compose unit) over the per-iteration contracts; whole sessions only to a bound (verif_native_session_step_counts)'],
    },
    'C11': {
        'level': 'proof',
        'kani': True,
        'native': True,
        'explanation': 'Breakpoints::{new,get,insert,remove,with_orig,len,is_empty} are proved against the data-structure invariant bp_wf (strictly '
                       'increasing addresses) and a whole-set postcondition (address set after insert/remove, other entries preserved) with loop '
                       'invariants and two induction lemmas; check_interrupts is proved to pause (status Wait, remember the address) exactly when the '
                       'PC carries a breakpoint not just paused on, and to re-arm otherwise; next_action consumes a command before Proceed when paused.',
        'assumptions': ['Vec::retain keeps exactly the elements its closure accepts, in order (assume_specification)',
                        '"fires again next time" is the re-arm contract per instruction plus a history argument; whole sessions only to a bound (verif_native_session_breakpoint_rearm)'],
    },
    'C12': {
        'level': 'proof',
        'kani': False,
        'native': True,
        'explanation': 'run_command: Reset => *final(state) == old(self).initial_state; every &mut self method of Debugger under contract proves '
                       'dbg_frame (initial_state and asm_source unchanged), so nothing can alter the saved state; eval receives only `state`.',
        'assumptions': ['RunState::clone is the derived structural clone (derive checked by source scan; semantics of derive trusted)'],
    },
    'C13': {
        'level': 'proof',
        'kani': False,
        'native': True,
        'explanation': 'expect_userspace_address == in_user; add_address_offset / resolve_pc_offset / resolve_label / resolve_location are proved equal '
                       'to offs_spec/resolve_spec (mathematical sum, accepted iff inside [orig, 0xFE00), no wrap, no overflow); run_command proves '
                       'move writes exactly the named register or user-space word, goto only the PC, break add/remove only an in-user address, and '
                       'that refused commands and print/registers/assembly/break list change nothing.',
        'assumptions': ['symbol table seen through resolve_symbol_address is an uninterpreted constant map (sym_index) with 16-bit statement addresses'],
    },
    'C16': {
        'level': 'proof',
        'kani': False,
        'native': True,
        'explanation': 'Progress contract instead of liveness: next_action terminates (decreases: commands remaining in the finite script, then status) '
                       'and guarantees: Proceed without having consumed a command ==> PC in user space and not on HALT (so the run loop executes an '
                       'instruction); paused states (breakpoint, HALT, PC outside user space incl. 0xFFFF, step finished) always consume a command or '
                       'detach at end of input. run_command consumes exactly one command.',
        'assumptions': ['the script is finite (remaining(reader) is a natural number); Command::read_from consumes input on every round (external)'],
    },
    'C03': {
        'level': 'proof',
        'kani': False,
        'native': True,
        'explanation': 'RunEnvironment::from_raw is proved against load_spec (accepted iff non-empty and image[0]+len <= 0x10000; words at the origin, '
                       '0xF025 after the last word, zero elsewhere, PC=orig=image[0], R0-R6=0, R7=0xFDFF, no CC; exit 0xEE otherwise, never an index panic). '
                       'RunEnvironment::run: proved that no instruction is fetched outside [orig,0xFE00), PC+1 cannot overflow, the loop ends only at '
                       'PC==0xFFFF (or the debugger exit command), exception exits happen exactly when PC leaves user space; every iteration that executes is ONE '
                       'reference step (verif_ref_execute: the word under the PC is fetched, the PC incremented by one, that word executed; is_ref_step over '
                       'execute()\'s contract step_spec, C02). trap: PUTS/PUTSP loops proved free of overflow and state-preserving.',
        'assumptions': ['what is printed and what is consumed from stdin is I/O with no contract within reach: those clauses of C03 are NOT decided',
                        'exit statuses are checked as the argument of the modelled exit (R7), not as process behaviour',
                        'slice length <= isize::MAX (type invariant); clone_from_slice behaviour assumed (R13)'],
    },
    'C06': {
        'level': 'proof',
        'kani': False,
        'native': True,
        'explanation': 'Loader half only: from_raw accepts exactly the word images that fit (image[0]+len <= 0x10000, non-empty) and places them per '
                       'load_spec; everything else reaches the error exit, never a crash. The byte layer (big-endian file I/O, odd-length check, '
                       'extension dispatch in main()) has no function boundary within verifier reach and is NOT decided.',
        'assumptions': ['byte<->word conversion and file I/O in main()/run() are outside the contracts'],
    },
    'C04': {
        'level': 'proof',
        'kani': True,
        'native': True,
        'explanation': 'Acceptance is proved as an IFF against the field table: expect_lit (range closure == fits(bits, v) for Signed/Unsigned n), '
                       'parse_instr accepts exactly when every operand is of the right kind and fits (imm5 Signed(5), offset6 Signed(6), PC offsets '
                       'Signed(9/11), trap vector Unsigned(8), .orig Unsigned(16)) and never consumes/keeps anything else; bit_offs/emit reject exactly '
                       'when the 16-bit label distance does not fit the 9/10/11-bit field (never truncated: Kani complete twin + Verus); Air::set_orig '
                       'errors on the second .orig; Label::insert errors iff the key exists; Label::filled/backpatch error iff a referenced label is undefined.',
        'assumptions': ['token values are what the text denotes: the lexer is not verified deductively; every hex / decimal literal spelling around the 16-bit limits is enumerated natively (verif_native_literals, bounded)',
                        'HashMap<String,_> behaves as a map keyed by string content (SymTab stand-in, R10/R11)'],
    },
    'C05': {
        'level': 'proof',
        'kani': False,
        'native': True,
        'explanation': 'Totality of the parser/AIR layer as implicit obligations of every function under contract in U-PARSE/U-AIR/U-SYM: no arithmetic '
                       'overflow (line counter, literal offsets, span arithmetic, bit_offs), no out-of-bounds index, every panic!/unreachable!/assert! '
                       'unreachable or true (incl. Display of unexpected tokens via the displayable() precondition), termination of parse '
                       '(decreases: tokens left). The text layer (lexer, preprocess, error slicing, miette rendering) is outside Verus reach and CBMC timed '
                       'out on it: BOUNDED native enumeration stands in (tokenising every string <= 4 chars over 17 characters incl. multi-byte; '
                       'assembling every sequence of <= 4 source fragments over 19 incl. directives as operands: image or rendered diagnostic, no panic).',
        'assumptions': ['preprocess hands the parser a stream without whitespace/comment/eof tokens whose only directive is .orig (pstream_ok) — '
                        'assumed, text layer not deductively verified', 'diagnostic rendering not modelled (R5)'],
    },
    'C07': {
        'level': 'proof',
        'kani': True,
        'native': True,
        'explanation': 'assemble() (shared by check and watch) is proved to return Ok only if every statement has its labels resolved and enc_spec is '
                       'defined for it, i.e. emission cannot fail afterwards — so a source that check accepts always compiles/runs. Uses the contracts '
                       'of parse, Air::backpatch and AsmLine::emit (emit fails iff enc_spec is None).',
        'assumptions': ['feature-flag initialisation per subcommand is caller history on a thread-local in main(): outside every contract; decided only to a bound at the '
                        'process level (verif_native_check_cli, verif_native_watch_cli: exit statuses of check / compile / run / watch re-checks; found F23)',
                        'exit codes of the real binary are compared only on those bounded process-level runs'],
    },
    'C15': {
        'level': 'proof',
        'kani': True,
        'native': True,
        'explanation': 'eval_inner is proved: errors leave the machine untouched; the text denotes exactly one statement (text_denotes: the tokens of '
                       'the line, operands per the C01 operand table, trap vector included, nothing after it); if that statement is off-limits (BR*, RTI, '
                       'HALT, unknown trap) nothing happens, otherwise the machine does exactly step_spec of ITS encoding with the label resolved through '
                       'the symbol table, numbered pc-orig (R7 of JSR/JSRR/CALL left open, as C15 does); the instruction '
                       'handed to the VM can never take an error exit (never ends the session); composition lemma lemma_eval_label_target proves that '
                       'with this numbering a label operand addresses orig+line-1 — the label\'s own address — at every PC.',
        'assumptions': ['lemma_enc_opcode (opcode bits of the encoding) is assumed in Verus and discharged by the complete Kani harness enc_opcode_complete',
                        'text -> tokens of the one-instruction parser is the unverified lexer (new_simple assumed)'],
    },
    'C17': {
        'level': 'proof',
        'kani': False,
        'native': True,
        'explanation': 'Address/index arithmetic of the debugger\'s view: get_source_statement(a) is Some(ast[a-orig]) exactly for orig <= a < orig+len; '
                       'resolve_symbol_address(name) == table[name]-1; resolve_label == orig + index + offset inside user space (offs_spec); parse binds '
                       'every prefix label to the number of the statement it marks (verif_label_insert: line == current line; lines_ok: ast[i].line == i+1); '
                       'parse_instr proves the statement text ends at its last operand (tok_end), Span::join covers both spans; parse as a whole (loop invariant + '
                       'postcondition stmt_span_ok): every statement of the result carries the span that starts where its own head token starts and '
                       'ends where the last token consumed for it ends, with no other statement\'s head in between.',
        'assumptions': ['that token spans delimit the right text and that slicing src[span] shows it is the lexer / str indexing: not decided',
                        'rendering (show_line_context) and hash-map iteration order in resolve_symbol_name: not decided'],
    },
    'C18': {
        'level': 'proof',
        'kani': True,
        'native': True,
        'explanation': 'Run time: RunState::stack is proved to reach exit(1) exactly when the flag is off (before any state change) and to execute '
                       'step_stack otherwise; run_command: `step out` availability equals the flag as coded. Assembly time: Kani harness on '
                       'check_instruction with the flag stubbed symbolic (bounded by identifier length). Source scan: the flag is read nowhere else.',
        'assumptions': ['features::stack() constant during a run', 'clap parsing of -f and diagnostic text: not decided'],
    },
    'C19': {
        'level': 'other',
        'kani': False,
        'native': True,
        'explanation': 'reset_state is proved to leave the symbol table empty; every assembler function under contract is, by construction of the '
                       'verified text, a function of its explicit arguments plus the lifted table parameter (R11) and features::stack(); Air::new is '
                       'proved empty; a source scan shows SYMBOL_TABLE is the only process-global in the assembler files and is touched only inside '
                       'with_symbol_table. The history-level statement is argued from these, not machine-checked.',
        'assumptions': ['lexer not extracted (covered by the scan only)', 'the watch closure in main() that must call reset_state is outside reach'],
    },
    'C14': {
        'level': 'model_checking',
        'kani': True,
        'native': True,
        'engine': 'kani+native',
        'technique': 'Kani/CBMC harnesses injected into the real crate: complete (loop-free, full-domain) for conversions/decoder, bounded for string parsing',
        'explanation': 'Complete (full domain, loop-free): Integer::as_i16/as_u16/as_u16_cast over all i32, Radix::parse_digit over all chars x radices, '
                       'read_char_from_bytes over every byte sequence of at most 4 bytes (never panics; decodes exactly what it consumed). Bounded: '
                       'parse_integer against an executable reference grammar (int_ref) on all strings <= 4 characters over the property\'s alphabet and '
                       'on signed 9-10 digit decimals across the i32 boundary. BOUNDED native enumeration (CBMC timed out on these): parse_integer on all '
                       'strings <= 5 chars over 17 characters vs the reference grammar; Command::try_from on 40 command words x <= 3 arguments over 24 '
                       'spellings (no panic, name case-insensitive, 11 documented meanings exact); Argument::read splitting on all strings <= 7 chars. '
                       'The stdin transport loop is not covered.',
        'assumptions': ['bounded parts are bounded model checking, not proof (bounds stated per harness in coverage.functions_bounded_only)',
                        'Stdin::read I/O loop and --command vs stdin transport equivalence: not decided'],
    },
    'C20': {
        'level': 'proof',
        'kani': True,
        'native': True,
        'technique': 'contract-based deductive verification (Verus) of the real Terminal::handle_key / update_next / get_current / is_next / read_line_raw / read_line, extracted '
                     'mechanically on every run, against a reference editor over character sequences; the str helpers have assumed character-level '
                     'contracts, each enumerated to a bound on the real code (engine N, Kani)',
        'explanation': 'PROVED (Verus, unit terminal, for every key and every editor state satisfying the invariant, hence by induction for key sequences '
                       'of any length): Terminal::handle_key never panics (every expect / -= / += / index is an obligation), keeps the history index in '
                       'range and the cursor between 0 and the number of characters of the focused line (ed_wf), takes exactly the step key_spec of the '
                       'plain reference editor over Seq<char> (insert/remove at the cursor, lazy copy of a focused history entry, Up/Down, Enter on a '
                       'blank new line clears it, otherwise submits), returns true exactly when that editor submits, and leaves the history list and '
                       'the multi-command byte cursor unchanged; update_next == ed_focus, get_current == the focused line, is_next. The real key loop '
                       'read_line_raw (ghost log of the keys read) ends exactly when the reference editor run over that log submits, holding its '
                       'text; its real caller read_line establishes the loop\'s precondition (empty line, cursor 0, index on the new line), hands on '
                       'a non-blank line (the debug_assert is an obligation) equal to the reference editor\'s, and re-establishes the resting state. '
                       'ASSUMED there (Verus '
                       'cannot reason about str bytes): insert_char_index / remove_char_index insert / remove the character at a CHARACTER index, '
                       'find_word_back / find_word_next return a value in [0, characters], chars().count() is the number of characters, '
                       'String::len is a byte length unrelated to it. BOUNDED stand-ins for exactly those helpers and for whole sessions (never '
                       'counted as proof): every key sequence of length <= 5 over 14 keys (a, space, +, 2-byte and 4-byte characters, Backspace, '
                       'Delete, Left, Right, Ctrl+Left/Right, Up, Down, Enter) from empty and non-empty history on the real handle_key vs a reference '
                       'editor; word motions on every line <= 5 characters at every cursor; Kani: count_chars_bytes on 14 lines.',
        'assumptions': ['character-level contracts of insert_char_index, remove_char_index, find_word_back, find_word_next, chars().count(), trim().is_empty() '
                        'are assumed in the Verus unit (external_body) and only enumerated to a bound on the real code',
                        'a String never holds more than usize::MAX characters (std invariant: at most isize::MAX bytes)',
                        'the exact target of Ctrl+Left/Right is not specified by the property (uninterpreted word_back / word_next, only their range)',
                        'the history file holds no blank line (precondition of read_line; a blank entry recalled with Up and submitted would trip '
                        'read_line\'s debug_assert in a debug build — not demonstrated on the binary, needs a TTY and a hand-edited history file)',
                        'history push (file write + comparison with the last entry) is a stand-in that may only append the submitted line',
                        'get_next_command (splitting the submitted line on ;), terminal drawing, raw mode, history file: not decided deductively '
                        '(sessions enumerated to a bound)'],
    },
}

NOT_APPLICABLE = {
    'C08': 'file-system effect ordering and exit status of a main() match arm under injected I/O faults: no function boundary, '
           'no returnable state and no contract language for file contents with the installed verifiers (DESIGN §5 C08)',
}
for _p in []:
    NOT_APPLICABLE.setdefault(_p, 'check not built yet in this revision (planned, see DESIGN.md §5)')
