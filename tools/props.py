"""Per-property metadata used by tools/check.py (levels, explanations, what is not decided)."""

RLIMIT = {}          # unit -> rlimit override
DIVERGING = set()    # functions whose every path diverges (vacuity probe cannot fail)

PROPS = {
    'C01': {
        'level': 'proof',
        'kani': False,
        'explanation': 'AsmLine::emit / bit_offs / ImmediateOrReg::bits / Flag::bits are proved equal to the ISA encoding '
                       'specification enc_spec for every statement kind, register, line and label line (Verus on the extracted '
                       'real text). Parser operand order, line numbering and backpatching are proved on a token-stream stand-in. '
                       'The text->token layer (lexer, preprocess) is not within Verus reach.',
        'assumptions': ['tokens carry the values their text denotes (lexer not verified deductively)'],
    },
}

NOT_APPLICABLE = {
    'C08': 'file-system effect ordering and exit status of a main() match arm under injected I/O faults: no function boundary, '
           'no returnable state and no contract language for file contents with the installed verifiers (DESIGN §5 C08)',
}
for _p in ['C02', 'C03', 'C04', 'C05', 'C06', 'C07', 'C09', 'C10', 'C11', 'C12', 'C13', 'C14', 'C15', 'C16', 'C17', 'C18', 'C19', 'C20']:
    NOT_APPLICABLE.setdefault(_p, 'check not built yet in this revision (planned, see DESIGN.md §5)')
