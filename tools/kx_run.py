"""Engine K (DESIGN §2.2): Kani/CBMC on a scratch copy of the real crate.

Harness modules live in /verif/kani/harness/<name>.rs. The first lines of each file declare where it is injected:
    // inject: src/runtime.rs
The module is appended to that source file of the SCRATCH copy as a child module
    #[cfg(kani)] #[path = "/verif/kani/harness/<name>.rs"] mod verif_kani_<name>;
so it sees private items while every function body is byte-for-byte the working tree's.
/verif/kani/registry.json lists the harnesses: property ids, target function, complete/bounded, bound, tier.
"""
import json
import os
import re
import shutil
import subprocess
import sys
import time

HERE = os.path.dirname(os.path.abspath(__file__))
VERIF = os.path.dirname(HERE)
REPO = os.environ.get('VERIF_REPO', '/repo')
SCRATCH_ROOT = os.environ.get('VERIF_SCRATCH', '/var/tmp')
KDIR = os.path.join(VERIF, 'kani')


def registry():
    return json.load(open(os.path.join(KDIR, 'registry.json')))['harnesses']


def prepare_scratch(tag):
    d = os.path.join(SCRATCH_ROOT, 'lace-kani-%s-%d' % (tag, os.getpid()))
    shutil.rmtree(d, ignore_errors=True)
    os.makedirs(d)
    subprocess.run(['rsync', '-a', '--exclude', 'target', '--exclude', '.git', REPO + '/', d + '/'], check=True)
    # patch miette with the API stub
    ct = open(os.path.join(d, 'Cargo.toml')).read()
    ct += '\n[patch.crates-io]\nmiette = { path = "%s" }\n' % os.path.join(KDIR, 'shims', 'miette')
    ct += '\n[lints.rust]\nunexpected_cfgs = { level = "allow" }\n'
    open(os.path.join(d, 'Cargo.toml'), 'w').write(ct)
    os.makedirs(os.path.join(d, '.cargo'), exist_ok=True)
    open(os.path.join(d, '.cargo', 'config.toml'), 'w').write('[net]\noffline = true\n')
    injected = []
    for f in sorted(os.listdir(os.path.join(KDIR, 'harness'))):
        if not f.endswith('.rs') or f.startswith('ref_'):
            continue
        p = os.path.join(KDIR, 'harness', f)
        head = open(p).read(400)
        m = re.search(r'//\s*inject:\s*(\S+)', head)
        if not m:
            continue
        target = os.path.join(d, m.group(1))
        if not os.path.exists(target):
            injected.append((f, m.group(1), 'MISSING'))
            continue
        with open(target, 'a') as out:
            out.write('\n#[cfg(kani)]\n#[path = "%s"]\nmod verif_kani_%s;\n' % (p, f[:-3]))
        injected.append((f, m.group(1), 'ok'))
    return d, injected


def parse_kani_output(text):
    """Split Kani's output per harness (sequential form `Checking harness X...` and the -j form `Thread N: ...`)."""
    bodies = {}          # full harness name -> text
    cur = None
    thread_h = {}
    for ln in text.split('\n'):
        m = re.match(r'^(?:Thread (\d+): )?Checking harness ([^\s]+?)\.\.\.\s*$', ln)
        if m:
            name = m.group(2)
            bodies.setdefault(name, '')
            if m.group(1) is not None:
                thread_h[m.group(1)] = name
                cur = None
            else:
                cur = name
            continue
        m = re.match(r'^Thread (\d+):\s*$', ln)
        if m and m.group(1) in thread_h:
            cur = thread_h[m.group(1)]
            continue
        if ln.startswith('Manual Harness Summary') or ln.startswith('Complete - '):
            cur = None
        if cur is not None:
            bodies[cur] += ln + '\n'
    res = {}
    for name, body in bodies.items():
        status = 'unknown'
        m = re.search(r'VERIFICATION:- (SUCCESSFUL|FAILED)', body)
        if m:
            status = 'ok' if m.group(1) == 'SUCCESSFUL' else 'failed'
        checks = 0
        failed = []
        m2 = re.search(r'\*\* (\d+) of (\d+) failed', body)
        if m2:
            checks = int(m2.group(2))
        for fm in re.finditer(r'Failed Checks: ([^\n]+)\n\s*File: "([^"]+)", line (\d+), in ([^\n]+)', body):
            failed.append({'desc': fm.group(1).strip(), 'file': fm.group(2), 'line': int(fm.group(3)), 'fn': fm.group(4).strip()})
        if status == 'failed' and ('CBMC timed out' in body or (not failed and not (m2 and int(m2.group(1)) > 0))):
            status = 'engine'   # solver timeout / crash: undecided, never a violation
        tm = re.search(r'Verification Time: ([0-9.]+)s', body)
        unwind_fail = any('unwinding assertion' in f['desc'] for f in failed)
        playback = re.findall(r'```\n(.*?)```', body, re.S)
        res[name.split('::')[-1]] = {'status': status, 'checks': checks, 'failed': failed,
                                     'solver_s': float(tm.group(1)) if tm else 0.0, 'full_name': name,
                                     'unwind_fail': unwind_fail, 'playback': playback[:1], 'body_tail': body[-2500:]}
    return res


def run_harnesses(pid, tier, only=None):
    """Run every registered harness serving `pid` for this tier. Returns a list of result dicts."""
    regs = [h for h in registry() if pid in h['props'] and (tier == 'thorough' or h.get('tier', 'quick') == 'quick')]
    if only:
        regs = [h for h in regs if h['name'] in only]
    if not regs:
        return []
    t0 = time.time()
    out = []
    d = None
    try:
        d, injected = prepare_scratch(pid)
        bad = [i for i in injected if i[2] != 'ok']
        base_cmd = ['cargo', 'kani', '--lib', '-Z', 'function-contracts', '-Z', 'stubbing', '--output-format', 'terse',
                    '-Z', 'unstable-options', '--harness-timeout', '%ds' % (max(h.get('timeout_s', 300) for h in regs))]
        cmd = base_cmd + ['-j', str(min(8, len(regs)))]
        for h in regs:
            cmd += ['--harness', h['name']]
        env = dict(os.environ, CARGO_NET_OFFLINE='true', CARGO_TARGET_DIR=os.path.join(d, 'target'))
        timeout = 3000 if tier == 'thorough' else 1200

        def run(c):
            try:
                p = subprocess.run(c, cwd=d, env=env, capture_output=True, text=True, timeout=timeout)
                return p.stdout + '\n=====STDERR=====\n' + p.stderr
            except subprocess.TimeoutExpired as e:
                so = e.stdout.decode('utf-8', 'replace') if isinstance(e.stdout, bytes) else (e.stdout or '')
                return so + '\nTIMEOUT\n=====STDERR=====\n'
        text = run(cmd)
        # phase 2: concrete playback (incompatible with -j) only for harnesses that failed
        first = parse_kani_output(text.split('\n=====STDERR=====\n')[0])
        extra = {}
        for h in regs:
            r0 = first.get(h['name'])
            if r0 and r0['status'] == 'failed':
                t2 = run(base_cmd + ['-Z', 'concrete-playback', '--concrete-playback=print', '--harness', h['name']])
                text += '\n##### playback run for %s #####\n' % h['name'] + t2
                r2 = parse_kani_output(t2.split('\n=====STDERR=====\n')[0]).get(h['name'])
                if r2:
                    extra[h['name']] = r2
        os.makedirs(os.path.join(VERIF, 'out', 'kani'), exist_ok=True)
        open(os.path.join(VERIF, 'out', 'kani', '%s-%s.log' % (pid, tier)), 'w').write(text)
        parsed = dict(first)
        parsed.update(extra)
        for h in regs:
            r = parsed.get(h['name'])
            base = {'harness': h['name'], 'target': h['target'], 'bounded': h.get('bounded', False),
                    'bound': h.get('bound', ''), 'cmd': ' '.join(cmd[:12]) + ' --harness ' + h['name'], 'engine': 'kani'}
            if r is None:
                reason = 'harness produced no result (compile error, ICE or timeout)'
                m = re.search(r'(error(\[E\d+\])?: [^\n]+)', text)
                if m:
                    reason += ': ' + m.group(1)
                if 'TIMEOUT' in text:
                    reason += ' [timeout]'
                out.append(dict(base, status='engine-failure', reason=reason))
                continue
            if r['status'] == 'engine':
                out.append(dict(base, status='engine-failure', reason='CBMC timed out or crashed: ' + r['body_tail'][-200:].replace('\n', ' ')))
                continue
            if r['status'] == 'ok':
                out.append(dict(base, status='ok', checks=r['checks'], solver_s=r['solver_s'], failures=[]))
            elif r['status'] == 'failed':
                if r['unwind_fail'] and all('unwinding assertion' in f['desc'] for f in r['failed']):
                    out.append(dict(base, status='engine-failure', reason='unwinding bound too small: ' + h['name']))
                    continue
                fails = []
                for f in r['failed']:
                    if 'unwinding assertion' in f['desc']:
                        continue
                    fails.append({'obligation': 'kani/%s/%s@%s' % (h['name'], f['fn'], f['desc'][:200]), 'unit': 'kani',
                                  'function': h['target'], 'kind': 'kani-check', 'text': f['desc'][:300],
                                  'message': 'Kani: failed check in %s line %d' % (f['file'], f['line']), 'props': h['props'],
                                  'engine': 'kani', 'rendered': r['body_tail'],
                                  'counterexample': r['playback'][0] if r['playback'] else None,
                                  'replay': {'harness': h['name'], 'playback_test': r['playback'][0] if r['playback'] else None}})
                out.append(dict(base, status='failed', checks=r['checks'], solver_s=r['solver_s'], failures=fails))
            else:
                out.append(dict(base, status='engine-failure', reason='no verdict: ' + r['body_tail'][-300:]))
    finally:
        if d:
            shutil.rmtree(d, ignore_errors=True)
    for o in out:
        o['wall_s'] = round(time.time() - t0, 1)
    return out


def replay_native(rep):
    """Re-execute a Kani counterexample natively against the real code: the concrete-playback unit test printed by
    Kani is injected next to the harness in a scratch copy and run with `cargo kani playback`."""
    pb = (rep.get('replay') or {}).get('playback_test')
    h = (rep.get('replay') or {}).get('harness')
    if not pb or not h:
        print('no playback test recorded')
        return 0
    reg = [x for x in registry() if x['name'] == h]
    if not reg:
        print('harness no longer registered')
        return 2
    d, _ = prepare_scratch('replay')
    try:
        hfile = os.path.join(KDIR, 'harness', reg[0]['file'])
        # playback tests must live in the same module as the harness: private copy of the harness dir with the test appended
        hdir = os.path.join(d, 'verif_harness')
        shutil.copytree(os.path.join(KDIR, 'harness'), hdir)
        tmp = os.path.join(hdir, reg[0]['file'])
        open(tmp, 'a').write('\n' + pb + '\n')
        src = os.path.join(d, reg[0]['inject'])
        s = open(src).read().replace(hfile, tmp)
        open(src, 'w').write(s)
        env = dict(os.environ, CARGO_NET_OFFLINE='true', CARGO_TARGET_DIR=os.path.join(d, 'target'))
        p = subprocess.run(['cargo', 'kani', 'playback', '-Z', 'concrete-playback', '--lib', '--', 'kani_concrete_playback'],
                           cwd=d, env=env, capture_output=True, text=True, timeout=1200)
        tail = '\n'.join(l for l in (p.stdout + '\n' + p.stderr).split('\n') if not l.startswith(('warning', '   Compiling')))
        print(tail[-3000:])
        m = re.search(r'test result: (\w+)\. (\d+) passed; (\d+) failed', p.stdout)
        if not m:
            print('native replay could not be run (build or harness error)')
            return None
        failed = int(m.group(3)) > 0
        print('native replay on the real code: %s' % ('VIOLATION CONFIRMED (the playback test fails)' if failed else 'playback test passed'))
        return 1 if failed else 0
    finally:
        shutil.rmtree(d, ignore_errors=True)


if __name__ == '__main__':
    pid = sys.argv[1]
    tier = sys.argv[2] if len(sys.argv) > 2 else 'quick'
    only = sys.argv[3:] or None
    for r in run_harnesses(pid, tier, only):
        r.pop('failures', None) if r.get('status') == 'ok' else None
        print(json.dumps(r, indent=1)[:3000])
