"""Mechanical source scans backing assumptions the verifiers cannot see (DESIGN §5 C12, C18, C19).
Each scan returns (ok: bool, details: list[str]); a failed scan is reported as a violation of the assumption,
because the proof is only valid under it."""
import os
import re
import sys

sys.path.insert(0, os.path.dirname(os.path.abspath(__file__)))
import rsx  # noqa: E402

REPO = os.environ.get('VERIF_REPO', '/repo')


def _code(path):
    text = open(path, encoding='utf-8').read()
    mask = rsx.code_mask(text)
    return text, ''.join(c if mask[i] else (' ' if c != '\n' else '\n') for i, c in enumerate(text))


def scan_assembler_statics():
    """C19: the only process-global state reachable from the assembler is SYMBOL_TABLE, touched only via with_symbol_table."""
    files = ['src/parser.rs', 'src/air.rs', 'src/symbol.rs', 'src/lexer/mod.rs', 'src/lexer/cursor.rs', 'src/error.rs']
    found = []
    for f in files:
        text, code = _code(os.path.join(REPO, f))
        # strip #[cfg(test)] mod ... { } tails
        m = re.search(r'#\[cfg\(test\)\]\s*mod\s+\w+', text)
        if m:
            code = code[:m.start()]
        for m in re.finditer(r'\b(static\s+(?:mut\s+)?\w+|thread_local!|lazy_static!|static\s+ref\s+\w+)', code):
            if re.match(r"static\s+str\b", m.group(1)):
                continue
            found.append('%s: %s' % (f, m.group(1)))
    ok = sorted(found) == sorted(['src/symbol.rs: thread_local!', 'src/symbol.rs: static SYMBOL_TABLE'])
    uses = []
    for root, _, fs in os.walk(os.path.join(REPO, 'src')):
        for fn in fs:
            if fn.endswith('.rs'):
                p = os.path.join(root, fn)
                _, code = _code(p)
                for m in re.finditer(r'\bSYMBOL_TABLE\b', code):
                    line = code.count('\n', 0, m.start()) + 1
                    uses.append('%s:%d' % (os.path.relpath(p, REPO), line))
    ok_uses = all(u.startswith('src/symbol.rs:') for u in uses) and len(uses) == 2
    return ok and ok_uses, ['globals in assembler files: %s' % found, 'SYMBOL_TABLE mentioned at: %s' % uses]


def scan_runstate_clone():
    """C12: RunState's Clone is the derived structural clone (no manual impl)."""
    text, code = _code(os.path.join(REPO, 'src/runtime.rs'))
    m = re.search(r'((?:#\[[^\]]*\]\s*)+)pub\(super\)\s+struct\s+RunState\b', code)
    derived = bool(m and re.search(r'derive\([^)]*\bClone\b', m.group(1)))
    manual = bool(re.search(r'impl\s+Clone\s+for\s+RunState\b', code))
    return derived and not manual, ['derive(Clone) on RunState: %s' % derived, 'manual impl Clone for RunState: %s' % manual]


def scan_feature_flag_sites():
    """C18: the stack feature flag is consulted only by the lexer keyword gate, the run-time gate and `step out`."""
    sites = []
    for root, _, fs in os.walk(os.path.join(REPO, 'src')):
        for fn in fs:
            if fn.endswith('.rs'):
                p = os.path.join(root, fn)
                text, code = _code(p)
                m = re.search(r'#\[cfg\(test\)\]\s*mod\s+\w+', text)
                body = code[:m.start()] if m else code
                for mm in re.finditer(r'\bfeatures::stack\s*\(', body):
                    line = body.count('\n', 0, mm.start()) + 1
                    # enclosing fn
                    fns = [x for x in re.finditer(r'\bfn\s+(\w+)', body[:mm.start()])]
                    sites.append('%s::%s' % (os.path.relpath(p, REPO), fns[-1].group(1) if fns else '?'))
    allowed = {'src/lexer/mod.rs::check_instruction', 'src/runtime.rs::stack', 'src/runtime.rs::push_val',
               'src/runtime.rs::pop_val', 'src/debugger/mod.rs::run_command'}
    ok = set(sites) <= allowed and {'src/lexer/mod.rs::check_instruction', 'src/runtime.rs::stack'} <= set(sites)
    return ok, ['features::stack() call sites: %s' % sorted(set(sites))]


SCANS = {
    'C19': [('assembler_statics', scan_assembler_statics)],
    'C12': [('runstate_clone_derived', scan_runstate_clone)],
    'C18': [('feature_flag_sites', scan_feature_flag_sites)],
}

if __name__ == '__main__':
    for pid, scans in SCANS.items():
        for name, fn in scans:
            print(pid, name, fn())
