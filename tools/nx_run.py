"""Engine N: BOUNDED exhaustive enumeration of the real functions, natively (never counted as proof).

For str/UTF-8 code neither installed verifier reaches (Verus: no str reasoning; CBMC: timed out on every attempt, see
kani/registry.json dropped_intractable), a bounded check stands in: a test module is injected into a scratch copy of the
working tree as a child module of the file under test
    #[cfg(rozukke_lace_verif)] #[path = "/verif/native/<name>.rs"] mod verif_native_<name>;
and enumerates EVERY input up to a stated bound, comparing the real function with an executable reference and catching
panics. Each test prints
    VERIF-NATIVE name=<test> evaluated=<n> distinct=<m>
and, for a violation, VERIF-COUNTEREXAMPLE name=<test> input=<...> detail=<...>   (then fails).
/verif/native/registry.json lists the tests: property ids, target function, bound, tier.
"""
import json
import os
import re
import shutil
import subprocess
import sys
import time

HERE = os.path.dirname(os.path.abspath(__file__))
VERIF = os.path.dirname(HERE)
REPO = os.environ.get('VERIF_REPO', '/repo')
SCRATCH_ROOT = os.environ.get('VERIF_SCRATCH', '/var/tmp')
NDIR = os.path.join(VERIF, 'native')


def registry():
    return json.load(open(os.path.join(NDIR, 'registry.json')))['tests']


def run_tests(pid, tier, only=None):
    regs = [t for t in registry() if pid in t['props'] and (tier == 'thorough' or t.get('tier', 'quick') == 'quick')]
    if only:
        regs = [t for t in regs if t['name'] in only]
    if not regs:
        return []
    t0 = time.time()
    d = os.path.join(SCRATCH_ROOT, 'lace-native-%s-%d' % (pid, os.getpid()))
    shutil.rmtree(d, ignore_errors=True)
    out = []
    try:
        os.makedirs(d)
        subprocess.run(['rsync', '-a', '--exclude', 'target', '--exclude', '.git', REPO + '/', d + '/'], check=True)
        ct = open(os.path.join(d, 'Cargo.toml')).read()
        ct += '\n[lints.rust]\nunexpected_cfgs = { level = "allow" }\n'
        open(os.path.join(d, 'Cargo.toml'), 'w').write(ct)
        injected = set()
        for t in regs:
            # 'requires': helper modules (no tests of their own) another source file must carry for this test
            # (collected over every registered test of the same file: the file is compiled as a whole)
            needs = [(r['file'], r['inject']) for t2 in registry() if t2['file'] == t['file'] for r in t2.get('requires', [])]
            for fname, inject in [(t['file'], t['inject'])] + needs:
                if fname in injected:
                    continue
                injected.add(fname)
                target = os.path.join(d, inject)
                if not os.path.exists(target):
                    out.append({'test': t['name'], 'target': t['target'], 'status': 'engine-failure', 'reason': 'source file missing: ' + inject})
                    continue
                with open(target, 'a') as f:
                    f.write('\n#[cfg(rozukke_lace_verif)]\n#[path = "%s"]\npub(crate) mod verif_native_%s;\n' % (
                        os.path.join(NDIR, fname), fname[:-3]))
        env = dict(os.environ, CARGO_NET_OFFLINE="true", RUSTFLAGS="--cfg rozukke_lace_verif -C overflow-checks=on", VERIF_NATIVE_OUT=os.path.join(d, "verif_native.out"), VERIF_NATIVE_TIER=tier,
                   CARGO_TARGET_DIR=os.path.join(SCRATCH_ROOT, 'lace-native-target'))
        if any(t.get('needs_bin') for t in regs):
            # process-level tests drive the real binary built from the same scratch copy (without the test cfg)
            env_b = dict(os.environ, CARGO_NET_OFFLINE='true', RUSTFLAGS='-C overflow-checks=on', CARGO_TARGET_DIR=os.path.join(SCRATCH_ROOT, 'lace-native-target-bin'))
            b = subprocess.run(['cargo', 'build', '--offline', '--release', '--bin', 'lace'], cwd=d, env=env_b, capture_output=True, text=True)
            binp = os.path.join(SCRATCH_ROOT, 'lace-native-target-bin', 'release', 'lace')
            if b.returncode == 0 and os.path.exists(binp):
                shutil.copy(binp, os.path.join(d, 'lace-under-test'))
                env['VERIF_LACE_BIN'] = os.path.join(d, 'lace-under-test')
        # only the tests registered for this property (a session test that finds a violation ends its process, which would
        # take unrelated tests of the same binary with it)
        cmd = ['cargo', 'test', '--offline', '--no-fail-fast', '--lib', '--bins', '--release', '--'] + sorted(set(t['name'] for t in regs)) + ['--test-threads', '8']
        try:
            p = subprocess.run(cmd, cwd=d, env=env, capture_output=True, text=True, stdin=subprocess.DEVNULL, timeout=3000 if tier == 'thorough' else 1200)
            text = p.stdout + '\n=====STDERR=====\n' + p.stderr
            outp = os.path.join(d, 'verif_native.out')
            if os.path.exists(outp):
                text = open(outp).read() + '\n=====TEST OUTPUT=====\n' + text
        except subprocess.TimeoutExpired:
            text = 'TIMEOUT'
        os.makedirs(os.path.join(VERIF, 'out', 'native'), exist_ok=True)
        open(os.path.join(VERIF, 'out', 'native', '%s-%s.log' % (pid, tier)), 'w').write(text)
        for t in regs:
            if any(o.get('test') == t['name'] for o in out):
                continue
            base = {'test': t['name'], 'target': t['target'], 'bound': t['bound'], 'bounded': True, 'engine': 'native-enumeration',
                    'cmd': 'RUSTFLAGS="--cfg rozukke_lace_verif -C overflow-checks=on" ' + ' '.join(cmd)}
            m = re.search(r'VERIF-NATIVE name=%s evaluated=(\d+) distinct=(\d+)' % re.escape(t['name']), text)
            cex = re.findall(r'VERIF-COUNTEREXAMPLE name=%s (.*)' % re.escape(t['name']), text)
            verdict = re.search(r'test [\w:]*%s \.\.\. (ok|FAILED)' % re.escape(t['name']), text)
            if cex:
                fails = [{'obligation': 'native/%s@%s' % (t['name'], cex[0][:200]), 'unit': 'native', 'function': t['target'],
                          'kind': 'bounded-enumeration', 'text': cex[0][:300], 'message': 'bounded enumeration found a failing input',
                          'props': t['props'], 'engine': 'native', 'rendered': '\n'.join(cex[:5]),
                          'counterexample': cex[0], 'replay': {'native_test': t['name']}}]
                out.append(dict(base, status='failed', failures=fails, evaluated=int(m.group(1)) if m else 0))
            elif verdict and verdict.group(1) == 'ok' and m:
                out.append(dict(base, status='ok', evaluated=int(m.group(1)), distinct=int(m.group(2)), failures=[]))
            else:
                reason = 'no verdict'
                em = re.search(r'(error(\[E\d+\])?: [^\n]+)', text)
                if em:
                    reason = em.group(1)
                if verdict and verdict.group(1) == 'FAILED':
                    reason = 'test failed without a VERIF-COUNTEREXAMPLE line (harness error?)'
                out.append(dict(base, status='engine-failure', reason=reason))
    finally:
        shutil.rmtree(d, ignore_errors=True)
    for o in out:
        o['wall_s'] = round(time.time() - t0, 1)
    return out


if __name__ == '__main__':
    for r in run_tests(sys.argv[1], sys.argv[2] if len(sys.argv) > 2 else 'quick', sys.argv[3:] or None):
        print(json.dumps(r, indent=1)[:2500])
