// BOUNDED native enumeration (engine N) — child module of src/debugger/command/mod.rs  (C14)
use super::*;
include!("common.inc");

fn leak(s: &str) -> &'static str { Box::leak(s.to_string().into_boxed_str()) }

fn describe(c: &Command) -> String { format!("{:?}", c) }

/// every command line `<name> <arg>? <arg>? <arg>?` over 40 command words (names, aliases, misspellings, unknown words, two-word
/// commands) and 24 argument spellings (registers, integers in every radix/sign form incl. the i32 boundary, labels with
/// offsets, PC offsets, malformed tokens, multi-byte text): parsing never panics; it is case-insensitive in the command
/// name; an accepted command carries the documented argument values for the spellings whose value is known
#[test]
fn verif_native_command_total() {
    let name = "verif_native_command_total";
    let names = ["help", "h", "step", "s", "step into", "si", "step out", "so", "continue", "c", "cont", "print", "p", "move", "m",
        "goto", "g", "assembly", "a", "asm", "eval", "e", "echo", "reset", "z", "quit", "q", "exit", "x", "break", "break add", "ba",
        "break remove", "br", "break list", "bl", "registers", "r", "next", "wibble"];
    let args = ["r0", "R7", "r8", "x3000", "0x3000", "#-1", "-#1", "0", "00x4", "0#2", "#", "x", "65535", "65536", "-32769", "2147483647",
        "2147483648", "foo", "foo+1", "foo-x10", "^3", "^-x10", "^", "é🍋"];
    let mut evaluated = 0u64;
    let mut accepted = std::collections::HashSet::new();
    let na = args.len();
    for nm in names {
        for nargs in 0..=3usize {
            for code in 0..na.pow(nargs as u32) {
                let mut c = code;
                let mut line = nm.to_string();
                for _ in 0..nargs { line.push(' '); line.push_str(args[c % na]); c /= na; }
                evaluated += 1;
                let text = leak(&line);
                let upper = leak(&{ let mut u = nm.to_ascii_uppercase(); u.push_str(&line[nm.len()..]); u });
                let r = verif_catch(|| (Command::try_from(text).map(|c| describe(&c)).map_err(|_| ()), Command::try_from(upper).map(|c| describe(&c)).map_err(|_| ())));
                match r {
                    Err(m) => { verif_out(&format!("VERIF-COUNTEREXAMPLE name={} input={:?} detail=panic: {}", name, line, m)); panic!("violation"); }
                    Ok((a, b)) => {
                        if a != b {
                            verif_out(&format!("VERIF-COUNTEREXAMPLE name={} input={:?} detail=parses to {:?} but with an upper-case name to {:?}", name, line, a, b));
                            panic!("violation");
                        }
                        if let Ok(d) = a {
                            // the guarantee the debugger proof relies on (cmd_wf): a `step into` count is never 0
                            if d.contains("StepInto { count: 0 }") {
                                verif_out(&format!("VERIF-COUNTEREXAMPLE name={} input={:?} detail=parses to {} (a count of 0 must mean 1)", name, line, d));
                                panic!("violation");
                            }
                            accepted.insert(d);
                        }
                    }
                }
            }
        }
    }
    // documented values of a few spellings
    let expect = [
        ("move r3 x10", "Move { location: Register(R3), value: 16 }"),
        ("move x3005 #-1", "Move { location: Memory(Address(12293)), value: 65535 }"),
        ("goto foo+2", "Goto { location: Label(Label { name: \"foo\", offset: 2 }) }"),
        ("goto foo-x10", "Goto { location: Label(Label { name: \"foo\", offset: -16 }) }"),
        ("print ^-3", "Print { location: Memory(PCOffset(-3)) }"),
        ("print", "Print { location: Memory(PCOffset(0)) }"),
        ("p", "Print { location: Memory(PCOffset(0)) }"),
        ("assembly", "Assembly { location: PCOffset(0) }"),
        // the sign may come before OR after a radix prefix (Integer's documented syntax), also where an integer is required
        ("move r1 x-5", "Move { location: Register(R1), value: 65531 }"),
        ("move r1 -x5", "Move { location: Register(R1), value: 65531 }"),
        ("move r2 b+101", "Move { location: Register(R2), value: 5 }"),
        ("move r3 o-17", "Move { location: Register(R3), value: 65521 }"),
        ("move r3 #-17", "Move { location: Register(R3), value: 65519 }"),
        ("step into x+2", "StepInto { count: 2 }"),
        ("step into 0b11", "StepInto { count: 3 }"),
        ("step into 0", "StepInto { count: 1 }"),
        ("step into", "StepInto { count: 1 }"),
        ("si 7", "StepInto { count: 7 }"),
        ("break add 0x3001", "BreakAdd { location: Address(12289) }"),
        ("p 0b101", "Print { location: Memory(Address(5)) }"),
        ("p o17", "Print { location: Memory(Address(15)) }"),
    ];
    for (line, want) in expect {
        evaluated += 1;
        let got = verif_catch(|| Command::try_from(leak(line)).map(|c| describe(&c)).map_err(|_| ()));
        if got != Ok(Ok(want.to_string())) {
            verif_out(&format!("VERIF-COUNTEREXAMPLE name={} input={:?} detail=parses to {:?}, documented meaning {}", name, line, got, want));
            panic!("violation");
        }
    }
    // every command name and abbreviation documented in help.txt (an oracle independent of the code's own tables), in two
    // letter cases; argument counts: a surplus argument is refused
    let documented = [
        ("help", "Help"), ("h", "Help"), ("step", "StepOver"), ("s", "StepOver"), ("step into", "StepInto { count: 1 }"), ("si", "StepInto { count: 1 }"),
        ("step out", "StepOut"), ("so", "StepOut"), ("continue", "Continue"), ("c", "Continue"), ("registers", "Registers"), ("r", "Registers"),
        ("print r2", "Print { location: Register(R2) }"), ("p r2", "Print { location: Register(R2) }"),
        ("move r2 1", "Move { location: Register(R2), value: 1 }"), ("m r2 1", "Move { location: Register(R2), value: 1 }"),
        ("goto x3001", "Goto { location: Address(12289) }"), ("g x3001", "Goto { location: Address(12289) }"),
        ("break add x3001", "BreakAdd { location: Address(12289) }"), ("ba x3001", "BreakAdd { location: Address(12289) }"),
        ("break remove x3001", "BreakRemove { location: Address(12289) }"), ("br x3001", "BreakRemove { location: Address(12289) }"),
        ("break list", "BreakList"), ("bl", "BreakList"), ("assembly ^2", "Assembly { location: PCOffset(2) }"), ("a ^2", "Assembly { location: PCOffset(2) }"),
        ("reset", "Reset"), ("z", "Reset"), ("quit", "Quit"), ("q", "Quit"), ("exit", "Exit"), ("x", "Exit"),
    ];
    for (line, want) in documented {
        for text in [line.to_string(), line.to_uppercase().replace("X3001", "x3001").replace("^2", "^2")] {
            evaluated += 1;
            let got = verif_catch(|| Command::try_from(leak(&text)).map(|c| describe(&c)).map_err(|_| ()));
            if got != Ok(Ok(want.to_string())) {
                verif_out(&format!("VERIF-COUNTEREXAMPLE name={} input={:?} detail=parses to {:?}, help.txt documents {}", name, text, got, want));
                panic!("violation");
            }
        }
    }
    for line in ["registers x", "quit foo", "continue 3", "reset 1", "break list 2", "step out 1", "goto x3001 x3002", "move r1 2 3", "print r1 r2", "step into 1 2"] {
        evaluated += 1;
        let got = verif_catch(|| Command::try_from(leak(line)).map(|c| describe(&c)).map_err(|_| ()));
        if got != Ok(Err(())) {
            verif_out(&format!("VERIF-COUNTEREXAMPLE name={} input={:?} detail=parses to {:?}; a surplus argument must be refused", name, line, got));
            panic!("violation");
        }
    }
    // a repeat count that is not positive means 1 (the parser's documented contract: "non-positive values will be converted to
    // 1") or is refused — never a third reading such as the two's complement of the number
    for line in ["step into -1", "si -1", "si #-5", "si -32768", "si -x1", "step into -0", "si x-7FFF"] {
        evaluated += 1;
        let got = verif_catch(|| Command::try_from(leak(line)).map(|c| describe(&c)).map_err(|_| ()));
        if !(got == Ok(Err(())) || got == Ok(Ok("StepInto { count: 1 }".to_string()))) {
            verif_out(&format!("VERIF-COUNTEREXAMPLE name={} input={:?} detail=parses to {:?}; a non-positive count means 1 (or the line is refused)", name, line, got));
            panic!("violation");
        }
    }
    verif_out(&format!("VERIF-NATIVE name={} evaluated={} distinct={}", name, evaluated, accepted.len()));
}
