// BOUNDED native enumeration (engine N) — child module of src/debugger/mod.rs  (C17: the debugger's view of source and symbols)
use super::*;
include!("common.inc");

fn leak(s: &str) -> &'static str { Box::leak(s.to_string().into_boxed_str()) }

/// 3 hand-laid-out programs (operand-less after operand-ful statements, labels with/without colon, commas and comments
/// between operands, multi-byte characters in comments and strings, .fill/.stringz/.blkw, .break and .orig interleaved,
/// non-default origins): for EVERY address from origin-2 to end+2 the source text shown for it is exactly the statement's
/// text (or nothing), and every label resolves to the address of the statement it marks
#[test]
fn verif_native_source_view() {
    let name = "verif_native_source_view";
    let _ = verif_catch(|| crate::features::init(Default::default()));
    // (source, origin, texts per address, labels -> offset from origin)
    let p1 = ".orig x3100\nstart add r0, r0, #1 ; cömment 🍋\n      ret\nlbl:  ld r1, data   \n      .break\n      not r2,r2 ;x\ndata  .fill x1234\ntxt   .stringz \"hé\"\n      .blkw #2\nlast  halt\n";
    let t1: Vec<&str> = vec!["add r0, r0, #1", "ret", "ld r1, data", "not r2,r2", ".fill x1234", ".stringz \"hé\"", ".stringz \"hé\"", ".stringz \"hé\"", ".blkw #2", ".blkw #2", "halt"];
    let l1 = vec![("start", 0u16), ("lbl", 2), ("data", 4), ("txt", 5), ("last", 10)];
    let p2 = "; héader 🍋\nhalt\nret\nlast: rti\n";
    let t2: Vec<&str> = vec!["halt", "ret", "rti"];
    let l2 = vec![("last", 2u16)];
    let p3 = "a jsr b ; é\n.break\nb: and r1 , r2 , r3\n.orig xFDF0\nputs\nz .fill #-1\n";
    let t3: Vec<&str> = vec!["jsr b", "and r1 , r2 , r3", "puts", ".fill #-1"];
    let l3 = vec![("a", 0u16), ("b", 1), ("z", 3)];
    // the very first byte of the file begins an operand-less statement (no .orig, label, comment or indentation before it)
    let p4 = "reg\nlea r0 msg\nputs\nhalt\nmsg .stringz \"ok\"\n";
    let t4: Vec<&str> = vec!["reg", "lea r0 msg", "puts", "halt", ".stringz \"ok\"", ".stringz \"ok\"", ".stringz \"ok\""];
    let l4 = vec![("msg", 4u16)];
    let p5 = ".fill x1\nret";
    let t5: Vec<&str> = vec![".fill x1", "ret"];
    let l5: Vec<(&str, u16)> = vec![];
    let p6 = "ret";
    let t6: Vec<&str> = vec!["ret"];
    let l6: Vec<(&str, u16)> = vec![];
    // newlines are plain whitespace to the lexer: operands may continue on the following line(s)
    let p7 = "add r0, r0,\n    #1\nlea r1,\r\n msg\nst\n\nr1\n\n,msg halt\nmsg .fill\n x0\n";
    let t7: Vec<&str> = vec!["add r0, r0,\n    #1", "lea r1,\r\n msg", "st\n\nr1\n\n,msg", "halt", ".fill\n x0"];
    let l7 = vec![("msg", 4u16)];
    let mut evaluated = 0u64;
    for (src, orig, texts, labels) in [(p1, 0x3100u16, t1, l1), (p2, 0x3000, t2, l2), (p3, 0xFDF0, t3, l3), (p4, 0x3000, t4, l4), (p5, 0x3000, t5, l5), (p6, 0x3000, t6, l6), (p7, 0x3000, t7, l7)] {
        crate::symbol::reset_state();
        let src = leak(src);
        let mut air = crate::parser::AsmParser::new(src).expect("lex").parse().expect("parse");
        air.backpatch().expect("backpatch");
        let asm = asm::AsmSource::from(orig, air.ast.clone(), src);
        let fail = |d: String| { verif_out(&format!("VERIF-COUNTEREXAMPLE name={} input=program {:?} detail={}", name, src, d)); panic!("violation"); };
        for a in (orig.wrapping_sub(2) as u32)..=(orig as u32 + texts.len() as u32 + 2) {
            let a = a as u16;
            evaluated += 1;
            let got = verif_catch(|| asm.get_single_line(a).map(|s| s.to_string()));
            let idx = a.wrapping_sub(orig) as usize;
            let want = if a >= orig && idx < texts.len() { Some(texts[idx].to_string()) } else { None };
            match got { Err(m) => fail(format!("assembly {:04x}: panic: {}", a, m)),
                Ok(g) => if g != want { fail(format!("assembly {:04x} shows {:?}, expected {:?}", a, g, want)); } }
        }
        for (l, off) in labels {
            evaluated += 1;
            match verif_catch(|| resolve_symbol_address(l)) { Err(m) => fail(format!("label {}: panic: {}", l, m)),
                Ok(g) => if g != Some(off) { fail(format!("label {} resolves to statement index {:?}, expected {}", l, g, off)); } }
        }
        crate::symbol::reset_state();
    }
    verif_out(&format!("VERIF-NATIVE name={} evaluated={} distinct={}", name, evaluated, evaluated));
}
