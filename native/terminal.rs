// BOUNDED native enumeration (engine N) — child module of src/debugger/command/reader/terminal.rs  (C20)
use super::*;
include!("common.inc");

fn mk_terminal(history: &[&str]) -> Terminal {
    Terminal {
        stderr: io::stderr(),
        buffer: String::new(),
        cursor: 0,
        visible_cursor: 0,
        history: TerminalHistory { list: history.iter().map(|s| s.to_string()).collect(), index: history.len(), file: None },
    }
}

/// plain reference editor: a line of characters, a cursor, a history list and the focused history entry
struct RefEditor { line: Vec<char>, cursor: usize, hist: Vec<Vec<char>>, index: usize }
impl RefEditor {
    fn current(&self) -> &Vec<char> { if self.index >= self.hist.len() { &self.line } else { &self.hist[self.index] } }
    fn focus_line(&mut self) { if self.index < self.hist.len() { self.line = self.hist[self.index].clone(); self.index = self.hist.len(); } }
    /// returns Some(submitted text) on a submitting Enter
    fn key(&mut self, k: &Key) -> Option<String> {
        match k {
            Key::Enter => {
                if self.index >= self.hist.len() && self.line.iter().collect::<String>().trim().is_empty() {
                    self.line.clear(); self.cursor = 0; None
                } else { self.focus_line(); Some(self.line.iter().collect()) }
            }
            Key::Char(c) => { if (*c as u32) < 0x20 || *c == '\x7f' { return None; } self.focus_line(); self.line.insert(self.cursor, *c); self.cursor += 1; None }
            Key::Backspace => { self.focus_line(); if self.cursor > 0 && self.cursor <= self.line.len() { self.cursor -= 1; self.line.remove(self.cursor); } None }
            Key::Delete => { self.focus_line(); if self.cursor < self.line.len() { self.line.remove(self.cursor); } None }
            Key::Left => { if self.cursor > 0 { self.cursor -= 1; } None }
            Key::Right => { if self.cursor < self.current().len() { self.cursor += 1; } None }
            Key::CtrlLeft | Key::CtrlRight => None, // word motions: only the bounds are checked; the cursor is copied from the real editor
            Key::Up => { if self.index > 0 { self.index -= 1; self.cursor = self.current().len(); } None }
            Key::Down => { if self.index < self.hist.len() { self.index += 1; self.cursor = self.current().len(); } None }
        }
    }
}

fn key_name(k: &Key) -> String {
    match k {
        Key::Char(c) => format!("Char({:?})", c), Key::Enter => "Enter".into(), Key::Backspace => "Backspace".into(),
        Key::Delete => "Delete".into(), Key::Left => "Left".into(), Key::Right => "Right".into(), Key::CtrlLeft => "CtrlLeft".into(),
        Key::CtrlRight => "CtrlRight".into(), Key::Up => "Up".into(), Key::Down => "Down".into(),
    }
}
fn mk_key(i: usize) -> Key {
    match i {
        0 => Key::Char('a'), 1 => Key::Char(' '), 2 => Key::Char('+'), 3 => Key::Char('é'), 4 => Key::Char('🍋'),
        5 => Key::Backspace, 6 => Key::Delete, 7 => Key::Left, 8 => Key::Right, 9 => Key::CtrlLeft, 10 => Key::CtrlRight,
        11 => Key::Up, 12 => Key::Down, _ => Key::Enter,
    }
}

/// every key sequence of length <= 5 over 14 keys, from empty and from non-empty history:
/// no panic, cursor inside the line after every key, history index in range, submitted text == reference editor
#[test]
fn verif_native_handle_key() {
    let name = "verif_native_handle_key";
    const NKEYS: usize = 14;
    let maxlen: usize = if verif_deep() { 6 } else { 5 };
    let histories: [&[&str]; 2] = [&[], &["ab é"]];
    let mut evaluated = 0u64;
    let mut submitted = std::collections::HashSet::new();
    for hist in histories.iter() {
        let mut seq = vec![0usize; maxlen];
        for len in 1..=maxlen {
            let total = NKEYS.pow(len as u32);
            for code in 0..total {
                let mut c = code;
                for i in 0..len { seq[i] = c % NKEYS; c /= NKEYS; }
                evaluated += 1;
                let mut term = mk_terminal(hist);
                let mut re = RefEditor { line: vec![], cursor: 0, hist: hist.iter().map(|s| s.chars().collect()).collect(), index: hist.len() };
                for i in 0..len {
                    let key = mk_key(seq[i]);
                    let key2 = mk_key(seq[i]);
                    let r = verif_catch(|| term.handle_key(key));
                    let keys: Vec<String> = seq[..=i].iter().map(|k| key_name(&mk_key(*k))).collect();
                    let done = match r {
                        Err(msg) => {
                            verif_out(&format!("VERIF-COUNTEREXAMPLE name={} input=history={:?} keys={:?} detail=panic: {}", name, hist, keys, msg));
                            panic!("violation");
                        }
                        Ok(d) => d,
                    };
                    let count = term.get_current().chars().count();
                    if term.visible_cursor > count || term.history.index > term.history.list.len() {
                        verif_out(&format!("VERIF-COUNTEREXAMPLE name={} input=history={:?} keys={:?} detail=cursor {} outside line of {} characters {:?}",
                            name, hist, keys, term.visible_cursor, count, term.get_current()));
                        panic!("violation");
                    }
                    let sub = re.key(&key2);
                    if matches!(key2, Key::CtrlLeft | Key::CtrlRight) { re.cursor = term.visible_cursor; }
                    if done != sub.is_some() || (done && Some(term.buffer.clone()) != sub) || re.cursor != term.visible_cursor {
                        verif_out(&format!("VERIF-COUNTEREXAMPLE name={} input=history={:?} keys={:?} detail=editor {:?}/cursor {} submitted={} but reference {:?}/cursor {} submitted={:?}",
                            name, hist, keys, term.get_current(), term.visible_cursor, done, re.current().iter().collect::<String>(), re.cursor, sub));
                        panic!("violation");
                    }
                    if done { submitted.insert(term.buffer.clone()); break; }
                }
            }
        }
    }
    verif_out(&format!("VERIF-NATIVE name={} evaluated={} distinct={}", name, evaluated, submitted.len()));
}

/// every line of <= 5 characters over { a, space, +, é, 🍋 } x every cursor x both modes: word motions stay inside the line
#[test]
fn verif_native_word_motion() {
    let name = "verif_native_word_motion";
    let lines = verif_strings(&['a', ' ', '+', 'é', '🍋'], if verif_deep() { 7 } else { 5 });
    let mut evaluated = 0u64;
    for line in &lines {
        let count = line.chars().count();
        for cursor in 0..=count {
            for full in [false, true] {
                evaluated += 1;
                let r = verif_catch(|| (find_word_next(line, cursor, full), find_word_back(line, cursor, full)));
                match r {
                    Err(msg) => { verif_out(&format!("VERIF-COUNTEREXAMPLE name={} input=line={:?} cursor={} full={} detail=panic: {}", name, line, cursor, full, msg)); panic!("violation"); }
                    Ok((next, back)) => {
                        if next > count || next < cursor || back > cursor {
                            verif_out(&format!("VERIF-COUNTEREXAMPLE name={} input=line={:?} cursor={} full={} detail=find_word_next={} find_word_back={} but the line has {} characters",
                                name, line, cursor, full, next, back, count));
                            panic!("violation");
                        }
                    }
                }
            }
        }
    }
    verif_out(&format!("VERIF-NATIVE name={} evaluated={} distinct={}", name, evaluated, lines.len()));
}
