// BOUNDED native enumeration (engine N) — child module of src/parser.rs  (C01 data directives and escapes, C05 totality end to end)
use super::*;
include!("common.inc");

fn leak(s: &str) -> &'static str { Box::leak(s.to_string().into_boxed_str()) }
fn init_features() { let _ = verif_catch(|| crate::features::init(Default::default())); }

/// single left-to-right pass: \n \t \r \\ \" are escapes, any other \c stays two characters, a trailing backslash stays
fn unescape_ref(s: &str) -> String {
    let cs: Vec<char> = s.chars().collect();
    let mut out = String::new();
    let mut i = 0;
    while i < cs.len() {
        if cs[i] == '\\' {
            if i + 1 < cs.len() {
                match cs[i + 1] { 'n' => out.push('\n'), 't' => out.push('\t'), 'r' => out.push('\r'), '\\' => out.push('\\'), '"' => out.push('"'),
                    c => { out.push('\\'); out.push(c); } }
                i += 2;
            } else { out.push('\\'); i += 1; }
        } else { out.push(cs[i]); i += 1; }
    }
    out
}

/// every string of <= 6 characters over { a, n, t, r, backslash, quote, é }
#[test]
fn verif_native_unescape() {
    let name = "verif_native_unescape";
    let inputs = verif_strings(&['a', 'n', 't', 'r', '\\', '"', 'é'], 6);
    let mut evaluated = 0u64;
    for s in &inputs {
        evaluated += 1;
        match verif_catch(|| unescape(s).into_owned()) {
            Err(m) => { verif_out(&format!("VERIF-COUNTEREXAMPLE name={} input={:?} detail=panic: {}", name, s, m)); panic!("violation"); }
            Ok(got) => if got != unescape_ref(s) {
                verif_out(&format!("VERIF-COUNTEREXAMPLE name={} input={:?} detail=unescape gives {:?}, single-pass reference {:?}", name, s, got, unescape_ref(s)));
                panic!("violation");
            }
        }
    }
    verif_out(&format!("VERIF-NATIVE name={} evaluated={} distinct={}", name, evaluated, inputs.len()));
}

fn bytes_of(src: &str) -> Result<Vec<u16>, String> {
    let toks = preprocess(leak(src)).map_err(|_| "error".to_string())?;
    Ok(toks.iter().filter_map(|t| if let TokenKind::Byte(v) = t.kind { Some(v) } else { None }).collect())
}

/// data directives expand to the documented words: .fill v (hex, dec, negative), .blkw n, .stringz "s" (+ terminator)
#[test]
fn verif_native_directives() {
    let name = "verif_native_directives";
    init_features();
    let mut evaluated = 0u64;
    let fail = |input: &str, detail: String| { verif_out(&format!("VERIF-COUNTEREXAMPLE name={} input={:?} detail={}", name, input, detail)); panic!("violation"); };
    for v in (0u32..=0xFFFF).step_by(257).chain([1, 0x7FFF, 0x8000, 0xFFFF]) {
        for text in [format!("lbl .fill x{:X}", v), format!(".FILL #{}", v), format!(".fill #{}", v as u16 as i16)] {
            evaluated += 1;
            match verif_catch(|| bytes_of(&text)) { Err(m) => fail(&text, format!("panic: {}", m)),
                Ok(r) => if r != Ok(vec![v as u16]) { fail(&text, format!("expands to {:?}", r)); } }
        }
    }
    for n in [0usize, 1, 2, 7, 255, 256, 1000] {
        for text in [format!(".blkw #{}", n), format!("a .BLKW x{:X}", n)] {
            evaluated += 1;
            match verif_catch(|| bytes_of(&text)) { Err(m) => fail(&text, format!("panic: {}", m)),
                Ok(r) => if r != Ok(vec![0u16; n]) { fail(&text, format!("expands to {:?} words", r.map(|v| v.len()))); } }
        }
    }
    let bodies = verif_strings(&['a', ' ', '\\', 'n', 'é', ';'], 4);
    for b in &bodies {
        // a body ending in an odd number of backslashes would escape the closing quote: not a well-formed literal
        let trailing = b.chars().rev().take_while(|c| *c == '\\').count();
        if trailing % 2 == 1 { continue; }
        let text = format!("s .stringz \"{}\"", b);
        evaluated += 1;
        let mut want: Vec<u16> = unescape_ref(b).chars().map(|c| c as u16).collect();
        want.push(0);
        match verif_catch(|| bytes_of(&text)) { Err(m) => fail(&text, format!("panic: {}", m)),
            Ok(r) => if r != Ok(want.clone()) { fail(&text, format!("expands to {:?}, expected {:?}", r, want)); } }
    }
    verif_out(&format!("VERIF-NATIVE name={} evaluated={} distinct={}", name, evaluated, evaluated));
}

/// token-level mutation: every sequence of <= 4 source fragments over 19 fragments (instructions, operands of every kind,
/// directives, a string, a comment, newline, multi-byte text): assembling returns an image or a diagnostic, never panics
#[test]
fn verif_native_assemble_total() {
    let name = "verif_native_assemble_total";
    init_features();
    let frags = ["add", "r0", "#1", "x3000", ".fill", ".blkw", ".stringz", "\"a\\\"\"", ".orig", ".break", "lbl", "br", "halt", ";c\n", "\n", "é", ",", "#-2", "ldr"];
    let n = frags.len();
    let mut evaluated = 0u64;
    let mut ok = 0u64;
    for len in 0..=4usize {
        for code in 0..n.pow(len as u32) {
            let mut c = code;
            let mut src = String::new();
            for _ in 0..len { src.push_str(frags[c % n]); src.push(' '); c /= n; }
            evaluated += 1;
            crate::symbol::reset_state();
            let text = leak(&src);
            let r = verif_catch(|| {
                let air = AsmParser::new(text).and_then(|p| p.parse());
                match air {
                    Ok(mut air) => { if air.backpatch().is_ok() { for s in &air { let _ = s.emit(); } } true }
                    Err(e) => { let _ = format!("{:?}", e); false }   // the diagnostic must render
                }
            });
            match r {
                Err(m) => { verif_out(&format!("VERIF-COUNTEREXAMPLE name={} input={:?} detail=panic: {}", name, src, m)); panic!("violation"); }
                Ok(true) => ok += 1,
                Ok(false) => (),
            }
        }
    }
    crate::symbol::reset_state();
    verif_out(&format!("VERIF-NATIVE name={} evaluated={} distinct={}", name, evaluated, ok));
}
