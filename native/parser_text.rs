// BOUNDED native enumeration (engine N) — child module of src/parser.rs  (C01 data directives and escapes, C05 totality end to end)
use super::*;
include!("common.inc");

fn leak(s: &str) -> &'static str { Box::leak(s.to_string().into_boxed_str()) }
fn init_features() { let _ = verif_catch(|| crate::features::init(Default::default())); }

/// single left-to-right pass: \n \t \r \\ \" are escapes, any other \c stays two characters, a trailing backslash stays
fn unescape_ref(s: &str) -> String {
    let cs: Vec<char> = s.chars().collect();
    let mut out = String::new();
    let mut i = 0;
    while i < cs.len() {
        if cs[i] == '\\' {
            if i + 1 < cs.len() {
                match cs[i + 1] { 'n' => out.push('\n'), 't' => out.push('\t'), 'r' => out.push('\r'), '\\' => out.push('\\'), '"' => out.push('"'),
                    c => { out.push('\\'); out.push(c); } }
                i += 2;
            } else { out.push('\\'); i += 1; }
        } else { out.push(cs[i]); i += 1; }
    }
    out
}

/// every string of <= 6 characters over { a, n, t, r, backslash, quote, é }
#[test]
fn verif_native_unescape() {
    let name = "verif_native_unescape";
    let inputs = verif_strings(&['a', 'n', 't', 'r', '\\', '"', 'é'], if verif_deep() { 8 } else { 6 });
    let mut evaluated = 0u64;
    for s in &inputs {
        evaluated += 1;
        match verif_catch(|| unescape(s).into_owned()) {
            Err(m) => { verif_out(&format!("VERIF-COUNTEREXAMPLE name={} input={:?} detail=panic: {}", name, s, m)); panic!("violation"); }
            Ok(got) => if got != unescape_ref(s) {
                verif_out(&format!("VERIF-COUNTEREXAMPLE name={} input={:?} detail=unescape gives {:?}, single-pass reference {:?}", name, s, got, unescape_ref(s)));
                panic!("violation");
            }
        }
    }
    verif_out(&format!("VERIF-NATIVE name={} evaluated={} distinct={}", name, evaluated, inputs.len()));
}

fn bytes_of(src: &str) -> Result<Vec<u16>, String> {
    let toks = preprocess(leak(src)).map_err(|_| "error".to_string())?;
    Ok(toks.iter().filter_map(|t| if let TokenKind::Byte(v) = t.kind { Some(v) } else { None }).collect())
}

/// data directives expand to the documented words: .fill v (hex, dec, negative), .blkw n, .stringz "s" (+ terminator)
#[test]
fn verif_native_directives() {
    let name = "verif_native_directives";
    init_features();
    let mut evaluated = 0u64;
    let fail = |input: &str, detail: String| { verif_out(&format!("VERIF-COUNTEREXAMPLE name={} input={:?} detail={}", name, input, detail)); panic!("violation"); };
    for v in (0u32..=0xFFFF).step_by(257).chain([1, 0x7FFF, 0x8000, 0xFFFF]) {
        for text in [format!("lbl .fill x{:X}", v), format!(".FILL #{}", v), format!(".fill #{}", v as u16 as i16)] {
            evaluated += 1;
            match verif_catch(|| bytes_of(&text)) { Err(m) => fail(&text, format!("panic: {}", m)),
                Ok(r) => if r != Ok(vec![v as u16]) { fail(&text, format!("expands to {:?}", r)); } }
        }
    }
    // `.orig` takes any value that fits 16 bits, in decimal or hex; 65536 does not fit
    for (text, want) in [(".orig #0", Some(0u16)), (".orig #12288", Some(0x3000)), (".orig #32767", Some(0x7FFF)), (".orig #32768", Some(0x8000)), (".orig #40000", Some(40000)),
            (".orig #65535", Some(0xFFFF)), (".orig x0", Some(0)), (".orig x8000", Some(0x8000)), (".ORIG xFFFF", Some(0xFFFF)), (".orig #65536", None), (".orig x10000", None)] {
        evaluated += 1;
        let src = format!("{}\nret\n", text);
        match verif_catch(|| image_of(leak(&src))) { Err(m) => fail(&src, format!("panic: {}", m)),
            Ok(r) => if r.clone().ok().map(|img| img[0]) != want || (want.is_some() && r != Ok(vec![want.unwrap(), 0xC1C0])) { fail(&src, format!("assembles to {:04x?}, expected origin {:04x?}", r, want)); } }
    }
    for n in [0usize, 1, 2, 7, 255, 256, 1000] {
        for text in [format!(".blkw #{}", n), format!("a .BLKW x{:X}", n)] {
            evaluated += 1;
            match verif_catch(|| bytes_of(&text)) { Err(m) => fail(&text, format!("panic: {}", m)),
                Ok(r) => if r != Ok(vec![0u16; n]) { fail(&text, format!("expands to {:?} words", r.map(|v| v.len()))); } }
        }
    }
    let bodies = verif_strings(&['a', ' ', '\\', 'n', 'é', ';'], 4);
    for b in &bodies {
        // a body ending in an odd number of backslashes would escape the closing quote: not a well-formed literal
        let trailing = b.chars().rev().take_while(|c| *c == '\\').count();
        if trailing % 2 == 1 { continue; }
        let text = format!("s .stringz \"{}\"", b);
        evaluated += 1;
        let mut want: Vec<u16> = unescape_ref(b).chars().map(|c| c as u16).collect();
        want.push(0);
        match verif_catch(|| bytes_of(&text)) { Err(m) => fail(&text, format!("panic: {}", m)),
            Ok(r) => if r != Ok(want.clone()) { fail(&text, format!("expands to {:?}, expected {:?}", r, want)); } }
    }
    verif_out(&format!("VERIF-NATIVE name={} evaluated={} distinct={}", name, evaluated, evaluated));
}

/// token-level mutation: every sequence of <= 4 source fragments over 19 fragments (instructions, operands of every kind,
/// directives, a string, a comment, newline, multi-byte text): assembling returns an image or a diagnostic, never panics
#[test]
fn verif_native_assemble_total() {
    let name = "verif_native_assemble_total";
    init_features();
    let frags = ["add", "r0", "#1", "x3000", ".fill", ".blkw", ".stringz", "\"a\\\"\"", ".orig", ".break", "lbl", "br", "halt", ";c\n", "\n", "é", ",", "#-2", "ldr"];
    let n = frags.len();
    let mut evaluated = 0u64;
    let mut ok = 0u64;
    for len in 0..=(if verif_deep() { 5usize } else { 4 }) {
        for code in 0..n.pow(len as u32) {
            let mut c = code;
            let mut src = String::new();
            for _ in 0..len { src.push_str(frags[c % n]); src.push(' '); c /= n; }
            evaluated += 1;
            crate::symbol::reset_state();
            let text = leak(&src);
            let r = verif_catch(|| {
                let air = AsmParser::new(text).and_then(|p| p.parse());
                match air {
                    Ok(mut air) => { if air.backpatch().is_ok() { for s in &air { let _ = s.emit(); } } true }
                    Err(e) => { let _ = format!("{:?}", e); false }   // the diagnostic must render
                }
            });
            match r {
                Err(m) => { verif_out(&format!("VERIF-COUNTEREXAMPLE name={} input={:?} detail=panic: {}", name, src, m)); panic!("violation"); }
                Ok(true) => ok += 1,
                Ok(false) => (),
            }
        }
    }
    crate::symbol::reset_state();
    verif_out(&format!("VERIF-NATIVE name={} evaluated={} distinct={}", name, evaluated, ok));
}

fn image_of(src: &'static str) -> Result<Vec<u16>, ()> {
    crate::symbol::reset_state();
    let r = (|| -> miette::Result<Vec<u16>> {
        let mut air = AsmParser::new(src)?.parse()?;
        air.backpatch()?;
        let mut v = vec![air.orig().unwrap_or(0x3000)];
        for s in &air { v.push(s.emit()?); }
        Ok(v)
    })();
    crate::symbol::reset_state();
    r.map_err(|_| ())
}

/// C18 (assembly time): each feature setting on its own thread (the flag is a thread-local set once): the four stack
/// mnemonics in lower/upper/mixed case, as instruction and in label position, are rejected iff the flag is off; 6 programs
/// that use none of them assemble to the same image under both settings
#[test]
fn verif_native_feature_gate() {
    let name = "verif_native_feature_gate";
    let run = |stack: bool| std::thread::spawn(move || {
        let feats: crate::features::Features = if stack { "stack".parse().unwrap() } else { "".parse().unwrap() };
        crate::features::init(feats);
        let mut out: Vec<(String, Result<Vec<u16>, ()>)> = Vec::new();
        let mut srcs: Vec<String> = Vec::new();
        for m in ["push r1", "pop r2", "call sub", "rets"] {
            // only the mnemonic changes case (labels are case-sensitive)
            let (mn, rest) = match m.find(' ') { Some(i) => (&m[..i], &m[i..]), None => (m, "") };
            for v in [m.to_string(), format!("{}{}", mn.to_ascii_uppercase(), rest), format!("{}{}{}", mn[0..1].to_ascii_uppercase(), &mn[1..], rest)] {
                srcs.push(format!("{}\nsub halt\n", v));
                srcs.push(format!("lbl {}\nsub halt\n", v));
            }
            // the mnemonic alone in label position (followed by an ordinary instruction)
            srcs.push(format!("{} add r0,r0,#1\nsub halt\n", m.split(' ').next().unwrap()));
        }
        for p in ["add r0,r0,#1\nhalt\n", ".orig x4000\nlea r0, s\nputs\nhalt\ns .stringz \"pop\"\n", "jsr f\nhalt\nf ret\n",
                  "pushx add r1,r1,#1\nbr pushx\n", ".fill xD400\n.fill xD800\nhalt\n", "ld r0, callx\ncallx .fill x1\n"] {
            srcs.push(p.to_string());
        }
        for s in srcs { let leaked: &'static str = Box::leak(s.clone().into_boxed_str()); let r = verif_catch(|| image_of(leaked)); out.push((s, r.unwrap_or(Err(())))); }
        out
    }).join();
    let (off, on) = match (run(false), run(true)) { (Ok(a), Ok(b)) => (a, b), _ => { verif_out(&format!("VERIF-COUNTEREXAMPLE name={} input=- detail=panic while assembling", name)); panic!("violation"); } };
    let mut evaluated = 0u64;
    for ((s, a), (_, b)) in off.iter().zip(on.iter()) {
        evaluated += 1;
        let first = s.split(|c: char| c == ' ' || c == '\n').next().unwrap().to_ascii_lowercase();
        let uses = s.split(|c: char| c.is_whitespace()).any(|w| ["push", "pop", "call", "rets"].contains(&w.to_ascii_lowercase().as_str()));
        let _ = first;
        let fail = |d: String| { verif_out(&format!("VERIF-COUNTEREXAMPLE name={} input={:?} detail={}", name, s, d)); panic!("violation"); };
        if uses {
            if a.is_ok() { fail("accepted without -f stack".to_string()); }
            // with the flag: accepted when the mnemonic is in instruction position, still an error in label position
            let label_pos = s.starts_with("push add") || s.starts_with("pop add") || s.starts_with("call add") || s.starts_with("rets add");
            if !label_pos && b.is_err() { fail("rejected although -f stack is given".to_string()); }
        } else if a != b {
            fail(format!("image differs with the flag: {:04x?} vs {:04x?}", a, b));
        }
    }
    verif_out(&format!("VERIF-NATIVE name={} evaluated={} distinct={}", name, evaluated, evaluated));
}

/// C19: every ordered triple over 11 sources (forward reference first, dangling reference, valid, failing in the lexer, failing in the parser after labels were recorded,
/// failing at backpatch, sharing label names, using .orig/.break) assembled in ONE thread with reset_state() in between:
/// each result equals the result of assembling that source first (repeatability included: the triple may repeat a source)
#[test]
fn verif_native_assembly_pure() {
    let name = "verif_native_assembly_pure";
    init_features();
    let srcs: [&'static str; 11] = [
        // a forward reference to a name nobody defines, then a failure in the PARSER (backpatching never runs); and one that
        // fails in the parser right after a forward reference to a name another source defines
        "ld r0, later\nadd r0, r0\nlater halt\n",
        "br a\nnot r1\n",
        // forward reference before any definition / dangling reference to a name other sources define
        "ld r0, b\nadd r0,r0,#1\nhalt\nb .fill x7\n",
        "lea r1, a\nhalt\n",
        "a add r0,r0,#1\nb br a\nhalt\n",
        "a .fill x1\nb ld r0, a\n\"unterminated\n",
        "a and r0,r0,#0\nb add r0, r0\nc halt\n",
        "a ld r0, nowhere\nhalt\n",
        ".orig x4000\nb lea r1, a\n.break\na halt\n",
        "c halt\nc halt\n",
        "x .stringz \"a;b\"\n.blkw 2\nbr x\n",
    ];
    let fresh: Vec<Result<Vec<u16>, ()>> = srcs.iter().map(|s| { let s: &'static str = s; std::thread::spawn(move || { init_features(); image_of_noreset(s) }).join().unwrap() }).collect();
    let mut evaluated = 0u64;
    for i in 0..srcs.len() { for j in 0..srcs.len() { for k in 0..srcs.len() {
        evaluated += 1;
        crate::symbol::reset_state();
        let seq = [i, j, k];
        for &x in &seq {
            let got = verif_catch(|| image_of_noreset(srcs[x]));
            crate::symbol::reset_state();
            let ok = matches!(&got, Ok(g) if *g == fresh[x]);
            if !ok {
                verif_out(&format!("VERIF-COUNTEREXAMPLE name={} input=sources {:?} assembled in this order with reset_state() between detail=source {:?} gives {:?}, assembled first it gives {:?}",
                    name, seq.iter().map(|q| srcs[*q]).collect::<Vec<_>>(), srcs[x], got, fresh[x]));
                panic!("violation");
            }
        }
    }}}
    verif_out(&format!("VERIF-NATIVE name={} evaluated={} distinct={}", name, evaluated, 9));
}
fn image_of_noreset(src: &'static str) -> Result<Vec<u16>, ()> {
    (|| -> miette::Result<Vec<u16>> {
        let mut air = AsmParser::new(src)?.parse()?;
        air.backpatch()?;
        let mut v = vec![air.orig().unwrap_or(0x3000)];
        for s in &air { v.push(s.emit()?); }
        for i in 0..air.breakpoints.len() { v.push(0xB000 | air.breakpoints.nth(i).map(|b| b.address).unwrap_or(0)); }
        Ok(v)
    })().map_err(|_| ())
}

/// C05 (backs the assumption `pstream_ok` under which the parser is proved): for every string of <= 4 characters over 15
/// characters and every sequence of <= 3 source fragments over 19, whatever `preprocess` hands to the parser contains no
/// whitespace / comment / eof token, no directive other than .orig, and spans that lie inside the source
#[test]
fn verif_native_preprocess_stream() {
    let name = "verif_native_preprocess_stream";
    init_features();
    let mut inputs = verif_strings(&['x', '0', 'r', '7', '#', '.', '"', ';', ' ', '\n', 'a', 'é', ':', 'o', 'g'], 4);
    let frags = ["add", "r0", "#1", "x3000", ".fill", ".blkw", ".stringz", "\"a\\\"\"", ".orig", ".break", "lbl", "br", "halt", ";c\n", "\n", "é", ",", ".end", ".ORIG"];
    for len in 1..=3usize { for code in 0..frags.len().pow(len as u32) { let mut c = code; let mut s = String::new(); for _ in 0..len { s.push_str(frags[c % frags.len()]); s.push(' '); c /= frags.len(); } inputs.push(s); } }
    let mut evaluated = 0u64;
    let mut streams = 0u64;
    for s in &inputs {
        evaluated += 1;
        let src = leak(s);
        match verif_catch(|| preprocess(src)) {
            Err(m) => { verif_out(&format!("VERIF-COUNTEREXAMPLE name={} input={:?} detail=panic: {}", name, s, m)); panic!("violation"); }
            Ok(Err(_)) => (),
            Ok(Ok(toks)) => {
                streams += 1;
                for t in toks {
                    let bad = matches!(t.kind, TokenKind::Whitespace | TokenKind::Comment | TokenKind::Eof)
                        || matches!(t.kind, TokenKind::Dir(d) if d != DirKind::Orig)
                        || t.span.end() > src.len();
                    if bad { verif_out(&format!("VERIF-COUNTEREXAMPLE name={} input={:?} detail=token {:?} span {}..{} reaches the parser", name, s, t.kind, t.span.offs(), t.span.end())); panic!("violation"); }
                }
            }
        }
    }
    verif_out(&format!("VERIF-NATIVE name={} evaluated={} distinct={}", name, evaluated, streams));
}

/// C01 / C04 end to end on the real assembler (text -> image), against an encoder written here from the ISA tables only:
/// every operate / memory / control instruction x registers {0,1,5,7} (lower and upper case) x 17 boundary immediates spelled in
/// decimal and in hex (a literal is judged as its 16-bit value) x PC-relative instructions with the label at distances
/// {min-1, min, -1, 0, 1, max, max+1} before / after, and with a literal offset; trap aliases; the stack mnemonics with the
/// flag on. A statement whose operands fit assembles to exactly the expected word; one whose operand does not fit is rejected.
#[test]
fn verif_native_assemble_encodes() {
    let name = "verif_native_assemble_encodes";
    let handle = std::thread::spawn(move || {
        let _ = verif_catch(|| crate::features::init("stack".parse().unwrap()));
        let mut evaluated = 0u64;
        let mut rejected = 0u64;
        let regs = [0u16, 1, 5, 7];
        let vals: [i32; 17] = [-32768, -33, -32, -17, -16, -1, 0, 1, 15, 16, 31, 32, 255, 256, 32767, 65535, 65520];
        let rname = |r: u16, up: bool| if up { format!("R{}", r) } else { format!("r{}", r) };
        let sign16 = |v: i32| -> i32 { let w = (v as u32 & 0xFFFF) as i32; if w >= 0x8000 { w - 0x10000 } else { w } };
        // (source of ONE statement placed first in the program, expected word or None when it must be rejected)
        let mut cases: Vec<(String, Option<u16>)> = Vec::new();
        for (mn, op) in [("add", 0x1000u16), ("and", 0x5000), ("ADD", 0x1000), ("And", 0x5000)] {
            for dr in regs { for s1 in regs {
                for s2 in regs { cases.push((format!("{} {}, {}, {}", mn, rname(dr, false), rname(s1, true), rname(s2, false)), Some(op | dr << 9 | s1 << 6 | s2))); }
                for v in vals { for hex in [false, true] {
                    let lit = if hex { format!("x{:X}", v as u32 & 0xFFFF) } else { format!("#{}", v) };
                    // a hex literal is a 16-bit pattern (xFFF0 is -16); a decimal is the number written: #65520 fits no signed field
                    let s = if hex { sign16(v) } else { v };
                    let want = if (-16..=15).contains(&s) { Some(op | dr << 9 | s1 << 6 | 0x20 | (s as u16 & 0x1F)) } else { None };
                    if dr == s1 || v == -1 { cases.push((format!("{} {} {} {}", mn, rname(dr, true), rname(s1, false), lit), want)); }
                } }
            } }
        }
        for dr in regs { for sr in regs { cases.push((format!("not {}, {}", rname(dr, false), rname(sr, false)), Some(0x9000 | dr << 9 | sr << 6 | 0x3F))); } }
        for (mn, op) in [("ldr", 0x6000u16), ("str", 0x7000), ("LDR", 0x6000), ("Str", 0x7000)] {
            for dr in regs { for base in regs { for v in vals { for hex in [false, true] {
                let lit = if hex { format!("x{:X}", v as u32 & 0xFFFF) } else { format!("#{}", v) };
                let s = if hex { sign16(v) } else { v };
                let want = if (-32..=31).contains(&s) { Some(op | dr << 9 | base << 6 | (s as u16 & 0x3F)) } else { None };
                cases.push((format!("{} {}, {}, {}", mn, rname(dr, false), rname(base, false), lit), want));
            } } } }
        }
        for base in regs {
            cases.push((format!("jmp {}", rname(base, false)), Some(0xC000 | base << 6)));
            cases.push((format!("JSRR {}", rname(base, true)), Some(0x4000 | base << 6)));
            cases.push((format!("push {}", rname(base, false)), Some(0xD400 | base << 6)));
            cases.push((format!("POP {}", rname(base, true)), Some(0xD000 | base << 6)));
        }
        cases.push(("ret".into(), Some(0xC1C0))); cases.push(("rti".into(), Some(0x8000))); cases.push(("rets".into(), Some(0xD800)));
        for (i, al) in ["getc", "out", "puts", "in", "putsp", "halt", "putn", "reg"].iter().enumerate() { cases.push((al.to_string(), Some(0xF020 + i as u16))); cases.push((al.to_uppercase(), Some(0xF020 + i as u16))); }
        for v in vals { for hex in [false, true] {
            let lit = if hex { format!("x{:X}", v as u32 & 0xFFFF) } else { format!("#{}", v) };
            let w = v as u32 & 0xFFFF;
            cases.push((format!("trap {}", lit), if w < 256 { Some(0xF000 | w as u16) } else { None }));
        } }
        // PC-relative with a literal offset (statement 1, so the value is stored as a reference and turned back into the offset)
        let pcrel: [(&str, u16, i32); 12] = [("br", 0x0E00, 9), ("brn", 0x0800, 9), ("brz", 0x0400, 9), ("brp", 0x0200, 9), ("brnz", 0x0C00, 9), ("brzp", 0x0600, 9), ("brnp", 0x0A00, 9), ("brnzp", 0x0E00, 9),
            ("jsr", 0x4800, 11), ("call", 0xDC00, 10), ("ld r5,", 0x2A00, 9), ("lea r1,", 0xE200, 9)];
        let pcrel2: [(&str, u16, i32); 4] = [("ldi r7,", 0xAE00, 9), ("st r0,", 0x3000, 9), ("sti r1,", 0xB200, 9), ("LD R0,", 0x2000, 9)];
        for (mn, op, bits) in pcrel.iter().chain(pcrel2.iter()) {
            let half = 1i32 << (bits - 1);
            let mask = ((1u32 << bits) - 1) as u16;
            if *mn == "call" { continue; }   // the extension's `call` takes a label only
            for v in [-half - 1, -half, -1, 0, 1, half - 1, half, 65535, 65536 - half, 32768] {
                cases.push((format!("{} #{}", mn, v), if v >= -half && v < half { Some(op | (v as u16 & mask)) } else { None }));
            }
        }
        for (src, want) in &cases {
            evaluated += 1;
            let text = format!("{}\nhalt\n", src);
            let got = verif_catch(|| image_of(leak(&text)));
            let fail = |d: String| { verif_out(&format!("VERIF-COUNTEREXAMPLE name={} input={:?} detail={}", name, text, d)); panic!("violation"); };
            match (got, want) {
                (Err(m), _) => fail(format!("panic: {}", m)),
                (Ok(Ok(img)), Some(w)) => if img.len() != 3 || img[1] != *w || img[2] != 0xF025 { fail(format!("assembles to {:04x?}, the ISA encoding is {:04x}", &img[1..], w)); },
                (Ok(Ok(img)), None) => fail(format!("accepted (as {:04x?}) although an operand does not fit its field", &img[1..])),
                (Ok(Err(())), Some(w)) => fail(format!("rejected although every operand fits (ISA encoding {:04x})", w)),
                (Ok(Err(())), None) => { rejected += 1; }
            }
        }
        // PC-relative with labels: reference at statement index `lead`, label `d` statements after the incremented PC
        for (mn, op, bits) in pcrel.iter().chain(pcrel2.iter()) {
            let half = 1i32 << (bits - 1);
            let mask = ((1u32 << bits) - 1) as u16;
            for d in [-half - 1, -half, -2, -1, 0, 1, half - 1, half] { for lead in [0usize, 2] {
                let mut src = String::new();
                let mut index_of_ref = lead;
                for _ in 0..lead { src.push_str("not r3, r3\n"); }
                if d >= 0 {
                    src.push_str(&format!("{} Target\n", mn));
                    if d > 0 { src.push_str(&format!(".blkw #{}\n", d)); }
                    src.push_str("Target halt\n");
                } else if d == -1 {
                    src.push_str(&format!("Target {} Target\n", mn));
                } else {
                    src.push_str("Target halt\n");
                    if -d - 2 > 0 { src.push_str(&format!(".blkw #{}\n", -d - 2)); }
                    src.push_str(&format!("{} Target\n", mn));
                    index_of_ref = lead + 1 + (-d - 2) as usize;
                }
                evaluated += 1;
                let want = if d >= -half && d < half { Some(op | (d as u16 & mask)) } else { None };
                let got = verif_catch(|| image_of(leak(&src)));
                let fail = |m: String| { verif_out(&format!("VERIF-COUNTEREXAMPLE name={} input={:?} detail={}", name, src, m)); panic!("violation"); };
                match (got, want) {
                    (Err(m), _) => fail(format!("panic: {}", m)),
                    (Ok(Ok(img)), Some(w)) => if img.get(1 + index_of_ref) != Some(&w) { fail(format!("word {} is {:04x?}, the ISA encoding for a label {} statements past the incremented PC is {:04x}", index_of_ref, img.get(1 + index_of_ref), d, w)); },
                    (Ok(Ok(_)), None) => fail(format!("accepted although the label is {} away and the field has {} bits", d, bits)),
                    (Ok(Err(())), Some(w)) => fail(format!("rejected although the distance {} fits {} bits (ISA encoding {:04x})", d, bits, w)),
                    (Ok(Err(())), None) => { rejected += 1; }
                }
            } }
        }
        (evaluated, rejected)
    });
    let (evaluated, rejected) = match handle.join() { Ok(x) => x, Err(_) => panic!("violation") };
    assert!(rejected > 0 && rejected < evaluated, "degenerate enumeration");
    verif_out(&format!("VERIF-NATIVE name={} evaluated={} distinct={}", name, evaluated, rejected));
}

/// C01 / C04 at PROGRAM level (the contract of `parse` itself is about numbering and the symbol table; what goes into which
/// statement is proved per helper): EVERY sequence of <= 4 lines over 16 lines — instructions, label definitions and uses in
/// both orders, a duplicate definition, an undefined reference, `.orig`, `.fill`, `.blkw`, `.stringz`, `.break` — is assembled
/// and compared with a reference written here: accepted iff no label is defined twice, every referenced label is defined and
/// `.orig` appears at most once; the image is the origin word then the words of each line in order, label operands encoding
/// (address of the labelled word) - (address of the reference + 1)
#[test]
fn verif_native_program_layout() {
    let name = "verif_native_program_layout";
    init_features();
    // (text, label defined, label referenced with (opcode bits, field width), words: fixed part; a reference line has one word)
    struct L { text: &'static str, def: Option<&'static str>, refs: Option<(&'static str, u16, u32)>, words: &'static [u16], orig: Option<u16> }
    let pool: [L; 16] = [
        L { text: "add r1,r2,#3", def: None, refs: None, words: &[0x12A3], orig: None },
        L { text: "lbl add r0,r0,#1", def: Some("lbl"), refs: None, words: &[0x1021], orig: None },
        L { text: "two: not r3,r3", def: Some("two"), refs: None, words: &[0x96FF], orig: None },
        L { text: "br lbl", def: None, refs: Some(("lbl", 0x0E00, 9)), words: &[], orig: None },
        L { text: "ld r3, two", def: None, refs: Some(("two", 0x2600, 9)), words: &[], orig: None },
        L { text: "jsr lbl", def: None, refs: Some(("lbl", 0x4800, 11)), words: &[], orig: None },
        L { text: "me st r1, me", def: Some("me"), refs: Some(("me", 0x3200, 9)), words: &[], orig: None },
        L { text: ".orig xC000", def: None, refs: None, words: &[], orig: Some(0xC000) },
        L { text: ".orig x3000", def: None, refs: None, words: &[], orig: Some(0x3000) },   // the default value, given explicitly
        L { text: ".fill xBEEF", def: None, refs: None, words: &[0xBEEF], orig: None },
        L { text: "d .blkw #2", def: Some("d"), refs: None, words: &[0, 0], orig: None },
        L { text: ".stringz \"hi\"", def: None, refs: None, words: &[0x68, 0x69, 0], orig: None },
        L { text: ".break", def: None, refs: None, words: &[], orig: None },
        L { text: "lbl ret", def: Some("lbl"), refs: None, words: &[0xC1C0], orig: None },
        L { text: "lea r0, nowhere", def: None, refs: Some(("nowhere", 0xE000, 9)), words: &[], orig: None },
        L { text: "lea r2, d", def: None, refs: Some(("d", 0xE400, 9)), words: &[], orig: None },
    ];
    let n = pool.len();
    let mut evaluated = 0u64;
    let mut rejected = 0u64;
    for len in 1..=(if verif_deep() { 5usize } else { 4 }) {
        for code in 0..n.pow(len as u32) {
            let mut c = code;
            let mut seq = Vec::new();
            for _ in 0..len { seq.push(&pool[c % n]); c /= n; }
            let src: String = seq.iter().map(|l| format!("{}\n", l.text)).collect();
            // reference
            let mut ok = true;
            let mut origin = None;
            let mut defs: Vec<(&str, usize)> = Vec::new();
            let mut at = 0usize;
            for l in &seq {
                if let Some(o) = l.orig { if origin.is_some() { ok = false; } origin = Some(o); }
                if let Some(d) = l.def { if defs.iter().any(|(k, _)| *k == d) { ok = false; } defs.push((d, at)); }
                at += l.words.len() + if l.refs.is_some() { 1 } else { 0 };
            }
            let mut want = vec![origin.unwrap_or(0x3000)];
            let mut at = 0usize;
            for l in &seq {
                if let Some((r, op, bits)) = l.refs {
                    match defs.iter().find(|(k, _)| *k == r) {
                        None => { ok = false; want.push(0); }
                        Some((_, target)) => { let d = *target as i32 - (at as i32 + 1); want.push(op | (d as u16 & ((1u32 << bits) - 1) as u16)); }
                    }
                    at += 1;
                }
                for w in l.words { want.push(*w); at += 1; }
            }
            evaluated += 1;
            let got = verif_catch(|| image_of(leak(&src)));
            let fail = |d: String| { verif_out(&format!("VERIF-COUNTEREXAMPLE name={} input={:?} detail={}", name, src, d)); panic!("violation"); };
            match got {
                Err(m) => fail(format!("panic: {}", m)),
                Ok(Ok(img)) => { if !ok { fail(format!("accepted (image {:04x?}) although a label is defined twice / undefined / .orig repeated", img)); }
                    if img != want { fail(format!("image {:04x?}, expected {:04x?}", img, want)); } }
                Ok(Err(())) => { if ok { fail(format!("rejected; expected image {:04x?}", want)); } rejected += 1; }
            }
        }
    }
    assert!(rejected > 0 && rejected < evaluated, "degenerate enumeration");
    verif_out(&format!("VERIF-NATIVE name={} evaluated={} distinct={}", name, evaluated, rejected));
}

/// C01 layout clause ("re-laying out the text never changes the image"): 4 programs x every subset of 7 layout transformations
/// (mnemonics / registers / directives in upper case; commas replaced by blanks; a colon after every label definition; a
/// comment appended to every line; blank and comment-only lines in between; leading tabs; CRLF line ends): the image is the
/// image of the original text
#[test]
fn verif_native_layout_invariance() {
    let name = "verif_native_layout_invariance";
    let handle = std::thread::spawn(move || {
        let _ = verif_catch(|| crate::features::init("stack".parse().unwrap()));
        // each line: (label or "", rest); the label of a line is defined there
        let programs: [&[(&str, &str)]; 4] = [
            &[("", ".orig x3100"), ("start", "add r0, r0, #1"), ("", "brp start"), ("", "ld r1, data"), ("", "halt"), ("data", ".fill xBEEF")],
            &[("", "lea r0, msg"), ("", "puts"), ("", "jsr sub"), ("", "halt"), ("sub", "ldr r2, r0, #-1"), ("", "ret"), ("msg", ".stringz \"a, b: c ; d\""), ("buf", ".blkw #2")],
            &[("top", "push r1"), ("", "call top"), ("", "pop r2"), ("", "rets"), ("", "trap x25"), ("w", ".fill #-2")],
            &[("", "and r3, r3, #0"), ("", ".break"), ("a", "not r3, r3"), ("b", "sti r3, a"), ("", "str r3, r3, x1F"), ("", "brnzp b")],
        ];
        let render = |prog: &[(&str, &str)], t: usize| -> String {
            let mut out = String::new();
            for (i, (label, rest)) in prog.iter().enumerate() {
                let mut rest = rest.to_string();
                let in_string = rest.contains('"');
                if t & 1 != 0 {
                    // upper-case the KEYWORDS only (mnemonics, registers, directives): label names are case-sensitive, literals stay
                    let keywords = ["add", "and", "brp", "brnzp", "ld", "ldr", "lea", "puts", "jsr", "halt", "ret", "not", "sti", "str", "trap", "push", "pop", "call", "rets",
                        "r0", "r1", "r2", "r3", ".orig", ".fill", ".stringz", ".blkw", ".break"];
                    let mut outw = String::new();
                    let mut word = String::new();
                    let mut quoted = false;
                    for ch in rest.chars().chain(std::iter::once(' ')) {
                        if ch == '"' { quoted = !quoted; }
                        if !quoted && (ch.is_alphanumeric() || ch == '.' || ch == '_') { word.push(ch); continue; }
                        if keywords.contains(&word.as_str()) { outw.push_str(&word.to_uppercase()); } else { outw.push_str(&word); }
                        word.clear();
                        outw.push(ch);
                    }
                    outw.pop();
                    rest = outw;
                }
                if t & 2 != 0 && !in_string { rest = rest.replace(",", " "); }
                let mut line = String::new();
                if t & 32 != 0 { line.push('\t'); }
                if !label.is_empty() { line.push_str(label); if t & 4 != 0 { line.push(':'); } line.push(' '); }
                line.push_str(&rest);
                if t & 8 != 0 { line.push_str(&format!(" ; note {} é", i)); }
                out.push_str(&line);
                out.push_str(if t & 64 != 0 { "\r\n" } else { "\n" });
                if t & 16 != 0 { out.push_str(if t & 64 != 0 { "\r\n   ; just a comment\r\n" } else { "\n   ; just a comment\n" }); }
            }
            out
        };
        let mut evaluated = 0u64;
        for prog in programs {
            let base_src = render(prog, 0);
            let base = match verif_catch(|| image_of(leak(&base_src))) { Ok(Ok(img)) => img, other => { verif_out(&format!("VERIF-COUNTEREXAMPLE name={} input={:?} detail=the plain layout does not assemble: {:?}", name, base_src, other.map(|r| r.is_ok()))); panic!("violation"); } };
            for t in 1..128usize {
                evaluated += 1;
                let src = render(prog, t);
                let got = verif_catch(|| image_of(leak(&src)));
                match got {
                    Err(m) => { verif_out(&format!("VERIF-COUNTEREXAMPLE name={} input={:?} detail=panic: {}", name, src, m)); panic!("violation"); }
                    Ok(Err(())) => { verif_out(&format!("VERIF-COUNTEREXAMPLE name={} input={:?} detail=rejected, although it is only a re-layout of {:?}", name, src, base_src)); panic!("violation"); }
                    Ok(Ok(img)) => if img != base { verif_out(&format!("VERIF-COUNTEREXAMPLE name={} input={:?} detail=image {:04x?} differs from the image {:04x?} of the plain layout", name, src, img, base)); panic!("violation"); }
                }
            }
        }
        evaluated
    });
    let evaluated = match handle.join() { Ok(x) => x, Err(_) => panic!("violation") };
    verif_out(&format!("VERIF-NATIVE name={} evaluated={} distinct={}", name, evaluated, evaluated));
}
