// BOUNDED native enumeration (engine N) — child module of src/debugger/command/parse/integer.rs  (C14)
use super::*;
include!("common.inc");

/// reference of the documented grammar:  sign? ( "0" | ("0"? prefix | <digit-start>) sign? digits ); (class, value):
/// 0 = Ok(None) (not an integer), 1 = Err, 2 = Ok(Some(value))
fn int_ref(b: &[u8], require_sign: bool) -> (u8, i64) {
    let n = b.len();
    if n == 0 { return (0, 0); }
    let mut i = 0;
    let mut sign: i64 = 0;
    if b[i] == b'+' { sign = 1; i += 1; } else if b[i] == b'-' { sign = -1; i += 1; }
    if require_sign && sign == 0 { return (1, 0); }
    let mut zero = false;
    if i < n && b[i] == b'0' { zero = true; i += 1; }
    let radix: i64;
    if i >= n {
        if zero { return (2, 0); }
        return if sign != 0 { (1, 0) } else { (0, 0) };
    }
    let c = b[i];
    if c == b'b' || c == b'B' { radix = 2; i += 1; }
    else if c == b'o' || c == b'O' { radix = 8; i += 1; }
    else if c == b'x' || c == b'X' { radix = 16; i += 1; }
    else if c == b'#' { if zero { return (1, 0); } radix = 10; i += 1; }
    else if c >= b'0' && c <= b'9' { radix = 10; }
    else if c == b'-' || c == b'+' { return (1, 0); }
    else { return if zero || sign != 0 { (1, 0) } else { (0, 0) }; }
    let decimal = radix == 10;
    if i < n && (b[i] == b'+' || b[i] == b'-') {
        if sign != 0 { return (1, 0); }
        sign = if b[i] == b'+' { 1 } else { -1 };
        i += 1;
    }
    let invalid_is_err = sign != 0 || zero || decimal;
    if i >= n { return if invalid_is_err { (1, 0) } else { (0, 0) }; }
    let mut v: i64 = 0;
    while i < n {
        let c = b[i];
        let d: i64 = if c >= b'0' && c <= b'9' { (c - b'0') as i64 }
            else if c >= b'a' && c <= b'f' { (c - b'a') as i64 + 10 }
            else if c >= b'A' && c <= b'F' { (c - b'A') as i64 + 10 }
            else { 99 };
        if d >= radix { return if invalid_is_err { (1, 0) } else { (0, 0) }; }
        v = v * radix + d;
        if v > i32::MAX as i64 { return (1, 0); }
        i += 1;
    }
    (2, if sign < 0 { -v } else { v })
}

/// every string of <= 5 characters over the 17-character alphabet of the property (signs, radix prefixes, digits, hex
/// letters, a non-digit, '#', '^', 'r', '_') and both require_sign values, against the reference grammar; plus every
/// decimal around the i32 boundary
#[test]
fn verif_native_parse_integer() {
    let name = "verif_native_parse_integer";
    let alpha = ['+', '-', '0', '1', '7', '9', '#', 'x', 'X', 'o', 'b', 'f', 'F', 'g', '_', '^', 'r'];
    let mut inputs = verif_strings(&alpha, if verif_deep() { 6 } else { 5 });
    for v in [2147483646i64, 2147483647, 2147483648, 2147483649, 4294967295, 4294967296, 99999999999] {
        for s in ["", "-", "+", "#", "-#", "#-"] { inputs.push(format!("{}{}", s, v)); }
    }
    for h in ["7FFFFFFF", "80000000", "FFFFFFFF", "100000000"] { for p in ["x", "0x", "-x", "x-"] { inputs.push(format!("{}{}", p, h)); } }
    let mut evaluated = 0u64;
    let mut values = std::collections::HashSet::new();
    for s in &inputs {
        for req in [false, true] {
            evaluated += 1;
            let (cls, val) = int_ref(s.as_bytes(), req);
            match verif_catch(|| parse_integer(s, req).map(|o| o.map(|i| *i as i64)).map_err(|_| ())) {
                Err(m) => { verif_out(&format!("VERIF-COUNTEREXAMPLE name={} input={:?} require_sign={} detail=panic: {}", name, s, req, m)); panic!("violation"); }
                Ok(got) => {
                    let ok = match got { Ok(None) => cls == 0, Err(()) => cls == 1, Ok(Some(v)) => { values.insert(v); cls == 2 && v == val } };
                    if !ok {
                        verif_out(&format!("VERIF-COUNTEREXAMPLE name={} input={:?} require_sign={} detail=parse_integer gives {:?}; documented grammar: class {} value {}", name, s, req, got, cls, val));
                        panic!("violation");
                    }
                }
            }
        }
    }
    verif_out(&format!("VERIF-NATIVE name={} evaluated={} distinct={}", name, evaluated, values.len()));
}
