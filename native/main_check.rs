// BOUNDED native enumeration (engine N) — child module of src/main.rs  (C07: check/watch agree with compile/run)
use super::*;
include!("common.inc");

/// what `compile` and `run` do with a source: parse, backpatch, emit every statement
fn emits(src: &'static str) -> bool {
    lace::reset_state();
    let r = lace::AsmParser::new(src).and_then(|p| p.parse()).and_then(|mut air| { air.backpatch()?; for s in &air { s.emit()?; } Ok(()) });
    lace::reset_state();
    r.is_ok()
}
fn checks(src: String) -> bool {
    lace::reset_state();
    let mut contents = StaticSource::new(src);
    let r = assemble(&contents).is_ok();
    lace::reset_state();
    contents.reclaim();
    r
}

/// every PC-relative instruction x label distance in {min-1, min, -1, 0, max, max+1} of its field x label before / after x
/// reference placed first, in the middle or last among other statements: `assemble` (what check and watch run) succeeds
/// exactly when parsing + backpatching + emitting every statement succeeds (what compile and run do)
#[test]
fn verif_native_check_agrees() {
    let name = "verif_native_check_agrees";
    let _ = verif_catch(|| lace::features::init("stack".parse().unwrap()));
    let instrs: [(&str, i32); 9] = [("br", 9), ("brnz", 9), ("ld r1,", 9), ("ldi r2,", 9), ("lea r3,", 9), ("st r4,", 9), ("sti r5,", 9), ("jsr", 11), ("call", 10)];
    let mut evaluated = 0u64;
    let mut rejected = 0u64;
    for (ins, bits) in instrs {
        let half = 1i32 << (bits - 1);
        for d in [-half - 1, -half, -1, 0, half - 1, half] {
            for lead in [0usize, 3] {
                for tail in [0usize, 2] {
                    // statement numbers: the reference is statement lead+1+(padding before) ; distance d = label - ref - 1
                    let mut src = String::new();
                    for _ in 0..lead { src.push_str("add r0, r0, #1\n"); }
                    if d >= 0 {
                        src.push_str(&format!("{} target\n", ins));
                        if d > 0 { src.push_str(&format!(".blkw #{}\n", d)); }
                        src.push_str("target halt\n");
                    } else {
                        src.push_str("target halt\n");
                        if -d - 2 > 0 { src.push_str(&format!(".blkw #{}\n", -d - 2)); }
                        if -d - 2 >= 0 { src.push_str(&format!("{} target\n", ins)); } else { src = src.replace("target halt\n", &format!("target {} target\n", ins)); }
                    }
                    for _ in 0..tail { src.push_str("not r1, r1\n"); }
                    evaluated += 1;
                    let leaked: &'static str = Box::leak(src.clone().into_boxed_str());
                    let r = verif_catch(|| (emits(leaked), checks(src.clone())));
                    match r {
                        Err(m) => { verif_out(&format!("VERIF-COUNTEREXAMPLE name={} input={:?} detail=panic: {}", name, src, m)); panic!("violation"); }
                        Ok((e, c)) => {
                            if !e { rejected += 1; }
                            if e != c {
                                verif_out(&format!("VERIF-COUNTEREXAMPLE name={} input={:?} detail=check says {} but compile/run say {}", name, src,
                                    if c { "ok" } else { "error" }, if e { "ok" } else { "error" }));
                                panic!("violation");
                            }
                        }
                    }
                }
            }
        }
    }
    // vacuity guard: both outcomes must have occurred
    assert!(rejected > 0 && rejected < evaluated, "degenerate enumeration");
    verif_out(&format!("VERIF-NATIVE name={} evaluated={} distinct={}", name, evaluated, rejected));
}

fn run_lace(args: &[&str]) -> Option<(i32, Vec<u8>)> {
    let bin = std::env::var("VERIF_LACE_BIN").ok()?;
    let out = std::process::Command::new(bin).args(args).stdin(std::process::Stdio::null()).output().ok()?;
    Some((out.status.code().unwrap_or(-1), out.stdout))
}

/// C06 at the process level (the byte layer lives in main()'s match arms, outside every contract): object files of 0..=9 bytes
/// whose first word is one of 9 boundary origins and whose other words are HALT: loaded iff even length, non-empty and
/// origin + words <= 0x10000 — otherwise an error exit, never a crash (exit 101) or a signal; a loaded image that starts in
/// user space halts with exit 0
#[test]
fn verif_native_loader_cli() {
    let name = "verif_native_loader_cli";
    if std::env::var("VERIF_LACE_BIN").is_err() { verif_out(&format!("VERIF-NATIVE name={} evaluated=0 distinct=0", name)); return; }
    let dir = std::env::temp_dir().join(format!("lace-verif-loader-{}", std::process::id()));
    std::fs::create_dir_all(&dir).unwrap();
    let origins = [0x0000u16, 0x3000, 0xFDFE, 0xFDFF, 0xFE00, 0xFFFC, 0xFFFD, 0xFFFE, 0xFFFF];
    let mut evaluated = 0u64;
    let mut loaded = 0u64;
    for orig in origins {
        for len in 0..=9usize {
            let mut bytes = Vec::new();
            bytes.extend_from_slice(&orig.to_be_bytes());
            while bytes.len() < len { bytes.extend_from_slice(&[0xF0, 0x25]); }
            bytes.truncate(len);
            let path = dir.join("image.lc3");
            std::fs::write(&path, &bytes).unwrap();
            evaluated += 1;
            let (code, _) = run_lace(&["run", "-m", path.to_str().unwrap()]).expect("lace binary");
            let words = len / 2;
            let fits = len > 0 && len % 2 == 0 && orig as usize + words <= 0x10000;
            let fail = |d: String| { verif_out(&format!("VERIF-COUNTEREXAMPLE name={} input=file bytes {:02x?} detail={}", name, bytes, d)); panic!("violation"); };
            if code == 101 || code < 0 { fail(format!("crashed (exit status {})", code)); }
            if !fits && code == 0 { fail("accepted although it is empty / odd / too long".to_string()); }
            if fits && (orig as usize) < 0xFE00 {
                loaded += 1;
                if code != 0 { fail(format!("image fits and starts with HALT in user space, but exit status is {}", code)); }
            }
        }
    }
    // images that end exactly at, one below and one above the top of memory, with full-size files: (origin, file length)
    for (orig, len) in [(0u16, 0x1FFFEusize), (0, 0x1FFFF), (0, 0x20000), (0, 0x20001), (0, 0x20002), (0, 0x20003), (0, 0x40000), (1, 0x1FFFE), (1, 0x20000), (0x3000, 0x1A000), (0x3000, 0x1A002), (0x3000, 0x20002)] {
        let mut bytes = Vec::with_capacity(len);
        bytes.extend_from_slice(&orig.to_be_bytes());
        while bytes.len() < len { bytes.extend_from_slice(&[0xF0, 0x25]); }
        bytes.truncate(len);
        let path = dir.join("image.lc3");
        std::fs::write(&path, &bytes).unwrap();
        evaluated += 1;
        let (code, _) = run_lace(&["run", "-m", path.to_str().unwrap()]).expect("lace binary");
        let fits = len % 2 == 0 && orig as usize + len / 2 <= 0x10000;
        let fail = |d: String| { verif_out(&format!("VERIF-COUNTEREXAMPLE name={} input=file of {:#x} bytes, first word {:04x}, every other word HALT detail={}", name, len, orig, d)); panic!("violation"); };
        if code == 101 || code < 0 { fail(format!("crashed (exit status {})", code)); }
        if !fits && code == 0 { fail("accepted although it is odd / too long".to_string()); }
        if fits { loaded += 1; if code != 0 { fail(format!("image fits and starts with HALT in user space, but exit status is {}", code)); } }
    }
    let _ = std::fs::remove_dir_all(&dir);
    assert!(loaded > 0);
    verif_out(&format!("VERIF-NATIVE name={} evaluated={} distinct={}", name, evaluated, loaded));
}

/// C06 round trip: `lace compile` writes 2(n+1) bytes, origin first, big-endian, and running the file prints what running the
/// source prints — 4 programs incl. no .orig, a non-default origin, data directives and a backward branch
#[test]
fn verif_native_compile_roundtrip() {
    let name = "verif_native_compile_roundtrip";
    if std::env::var("VERIF_LACE_BIN").is_err() { verif_out(&format!("VERIF-NATIVE name={} evaluated=0 distinct=0", name)); return; }
    let dir = std::env::temp_dir().join(format!("lace-verif-rt-{}", std::process::id()));
    std::fs::create_dir_all(&dir).unwrap();
    let progs: [(&str, u16, usize); 4] = [
        ("lea r0, msg\nputs\nhalt\nmsg .stringz \"hi\"\n", 0x3000, 6),
        (".orig x4000\nld r0, v\nout\nhalt\nv .fill x41\n", 0x4000, 4),
        (".orig xFDF0\nand r1,r1,#0\nadd r1,r1,#3\nl add r1,r1,#-1\nbrp l\nld r0, c\nout\nhalt\nc .fill x5A\n.blkw #2\n", 0xFDF0, 10),
        ("halt\n", 0x3000, 1),
    ];
    let mut evaluated = 0u64;
    for (src, orig, n) in progs {
        evaluated += 1;
        let asm = dir.join("p.asm");
        let obj = dir.join("p.lc3");
        std::fs::write(&asm, src).unwrap();
        let _ = std::fs::remove_file(&obj);
        let fail = |d: String| { verif_out(&format!("VERIF-COUNTEREXAMPLE name={} input=source {:?} detail={}", name, src, d)); panic!("violation"); };
        let (c, _) = run_lace(&["compile", asm.to_str().unwrap(), obj.to_str().unwrap()]).expect("lace binary");
        if c != 0 { fail(format!("compile exit status {}", c)); }
        let bytes = std::fs::read(&obj).unwrap_or_default();
        if bytes.len() != 2 * (n + 1) { fail(format!("object file has {} bytes, expected {}", bytes.len(), 2 * (n + 1))); }
        if bytes[0..2] != orig.to_be_bytes() { fail(format!("first word {:02x?}, expected origin {:04x} big-endian", &bytes[0..2], orig)); }
        let (c1, out1) = run_lace(&["run", "-m", asm.to_str().unwrap()]).unwrap();
        let (c2, out2) = run_lace(&["run", "-m", obj.to_str().unwrap()]).unwrap();
        // what the program printed: each run minus what the same command prints for a program that only halts (same paths)
        std::fs::write(&asm, "halt\n").unwrap();
        let obj0 = dir.join("p0.lc3");
        let _ = run_lace(&["compile", asm.to_str().unwrap(), obj0.to_str().unwrap()]);
        let saved = std::fs::read(&obj).unwrap_or_default();
        let _ = std::fs::copy(&obj0, &obj);
        let b1 = run_lace(&["run", "-m", asm.to_str().unwrap()]).map(|r| String::from_utf8_lossy(&r.1).to_string()).unwrap_or_default();
        let b2 = run_lace(&["run", "-m", obj.to_str().unwrap()]).map(|r| String::from_utf8_lossy(&r.1).to_string()).unwrap_or_default();
        std::fs::write(&obj, &saved).unwrap();
        let tail = |o: &Vec<u8>, b: &String| own_middle(&String::from_utf8_lossy(o), b).trim_end().to_string();
        if c1 != c2 || tail(&out1, &b1) != tail(&out2, &b2) { fail(format!("running the source: status {} output {:?}; running the object file: status {} output {:?}", c1, tail(&out1, &b1), c2, tail(&out2, &b2))); }
    }
    let _ = std::fs::remove_dir_all(&dir);
    verif_out(&format!("VERIF-NATIVE name={} evaluated={} distinct={}", name, evaluated, evaluated));
}

/// what the PROGRAM wrote: `out` without the longest prefix (and, for `own_middle`, suffix) it shares with `baseline`, the output
/// of the same command line on a program / script that prints nothing (the banners name the file, so the baseline uses the same
/// path). Independent of the wording of lace's own banner lines.
fn own_output(out: &str, baseline: &str) -> String {
    let n = out.chars().zip(baseline.chars()).take_while(|(a, b)| a == b).count();
    out.chars().skip(n).collect()
}
fn own_middle(out: &str, baseline: &str) -> String {
    let rest = own_output(out, baseline);
    let base_rest = own_output(baseline, out);
    let n = rest.chars().rev().zip(base_rest.chars().rev()).take_while(|(a, b)| a == b).count();
    let keep = rest.chars().count() - n;
    rest.chars().take(keep).collect()
}
/// baseline for `lace run -m <path>`: the same command on a program that only halts, at the same path
fn run_baseline(path: &std::path::Path) -> String {
    std::fs::write(path, "halt\n").unwrap();
    run_lace_stdin(&["run", "-m", path.to_str().unwrap()], b"").map(|r| r.1).unwrap_or_default()
}

fn run_lace_stdin(args: &[&str], input: &[u8]) -> Option<(i32, String)> {
    use std::io::Write as _;
    let bin = std::env::var("VERIF_LACE_BIN").ok()?;
    let mut child = std::process::Command::new(bin).args(args).stdin(std::process::Stdio::piped()).stdout(std::process::Stdio::piped())
        .stderr(std::process::Stdio::null()).spawn().ok()?;
    // the process may end without ever reading its input (a script that exits): a broken pipe here is not an error
    if let Some(mut stdin) = child.stdin.take() { let _ = stdin.write_all(input); }
    let out = child.wait_with_output().ok()?;
    Some((out.status.code().unwrap_or(-1), String::from_utf8_lossy(&out.stdout).to_string()))
}

/// C03 at the process level (what is printed and consumed is I/O, outside every contract): the characters written by OUT,
/// PUTS, PUTSP (low byte first, odd tail), PUTN, and consumed by GETC / IN (one byte each, IN echoes) for 7 programs
#[test]
fn verif_native_trap_output() {
    let name = "verif_native_trap_output";
    if std::env::var("VERIF_LACE_BIN").is_err() { verif_out(&format!("VERIF-NATIVE name={} evaluated=0 distinct=0", name)); return; }
    let dir = std::env::temp_dir().join(format!("lace-verif-trap-{}", std::process::id()));
    std::fs::create_dir_all(&dir).unwrap();
    // (source, stdin, the run's output with the banner lines removed must START with this text)
    let cases: [(&str, &str, &str); 9] = [
        // an ESC printed by the program reaches stdout also in --minimal mode (which strips only lace's own colours)
        ("ld r0, c\nout\nld r0, d\nout\nhalt\nc .fill x1B\nd .fill x41\n", "", "\x1bA"),
        ("lea r0, s\nputs\nhalt\ns .fill x5B\n.fill x1B\n.fill x5D\n.fill x0\n", "", "[\x1b]"),
        ("ld r0, c\nout\nhalt\nc .fill x1241\n", "", "A"),
        ("lea r0, s\nputs\nhalt\ns .stringz \"Hi, é!\"\n", "", "Hi, "),
        ("lea r0, s\nputsp\nhalt\ns .fill x4241\n.fill x0043\n.fill x0\n", "", "ABC"),
        ("lea r0, s\nputsp\nhalt\ns .fill x6948\n.fill x0\n", "", "Hi"),
        ("ld r0, v\nputn\nhalt\nv .fill #65\n", "", "65"),
        ("getc\nout\nin\nhalt\n", "ab", "ab"),
        ("in\nadd r0, r0, #1\nout\nhalt\n", "a", "ab"),
    ];
    let mut evaluated = 0u64;
    for (src, input, want) in cases {
        evaluated += 1;
        let asm = dir.join("t.asm");
        let base = run_baseline(&asm);
        std::fs::write(&asm, src).unwrap();
        let (code, out) = run_lace_stdin(&["run", "-m", asm.to_str().unwrap()], input.as_bytes()).expect("lace binary");
        let body = own_output(&out, &base);
        if code != 0 || !body.starts_with(want) {
            verif_out(&format!("VERIF-COUNTEREXAMPLE name={} input=program {:?} stdin {:?} detail=exit status {}, output {:?}, expected it to start with {:?}", name, src, input, code, body, want));
            panic!("violation");
        }
    }
    // IN echoes the character it delivers in R0, and GETC / IN consume exactly one byte each, for ASCII and non-ASCII bytes:
    // `in; putn; getc; out` fed <byte> 'Z' prints <echo><decimal R0>Z with code(echo) == R0
    for byte in [0x01u8, b'a', 0x7F, 0x80, 0xC3, 0xFF] {
        evaluated += 1;
        let asm = dir.join("t.asm");
        let src = "in\nputn\ngetc\nout\nhalt\n";
        let base = run_baseline(&asm);
        std::fs::write(&asm, src).unwrap();
        let (code, out) = run_lace_stdin(&["run", "-m", asm.to_str().unwrap()], &[byte, b'Z']).expect("lace binary");
        let body = own_output(&out, &base);
        let mut chars = body.chars();
        let echo = chars.next();
        let rest: String = chars.collect();
        let num: String = rest.chars().take_while(|c| *c == '-' || c.is_ascii_digit()).collect();
        let after = &rest[num.len()..];
        let r0 = num.parse::<i32>().ok().map(|n| n as u16);
        let ok = code == 0 && echo.is_some() && r0.is_some() && (echo.unwrap() as u32) == r0.unwrap() as u32 && after.starts_with('Z');
        if !ok {
            verif_out(&format!("VERIF-COUNTEREXAMPLE name={} input=program {:?} stdin bytes [{:#04x}, 'Z'] detail=exit status {}, output {:?}: IN must echo the character it puts in R0 (echo {:?}, R0 {:?}) and the next GETC must read 'Z'", name, src, byte, code, body, echo, r0));
            panic!("violation");
        }
    }
    let _ = std::fs::remove_dir_all(&dir);
    verif_out(&format!("VERIF-NATIVE name={} evaluated={} distinct={}", name, evaluated, evaluated));
}

/// C18 (run time, process level): an image that reaches opcode 0xD stops with exit status 1 without `-f stack` and executes
/// with it, for each of the four sub-forms (raw words, so the assembler's own gate is not involved)
#[test]
fn verif_native_stack_gate_cli() {
    let name = "verif_native_stack_gate_cli";
    if std::env::var("VERIF_LACE_BIN").is_err() { verif_out(&format!("VERIF-NATIVE name={} evaluated=0 distinct=0", name)); return; }
    let dir = std::env::temp_dir().join(format!("lace-verif-gate-{}", std::process::id()));
    std::fs::create_dir_all(&dir).unwrap();
    // PUSH r1 / POP r2 / CALL +1 / RETS as raw words, each followed by enough to halt cleanly when executed
    let progs = [
        ".fill xD440\nhalt\n",                       // push r1
        ".fill xD440\n.fill xD080\nhalt\n",          // push r1; pop r2
        ".fill xDC01\nhalt\nhalt\n",                 // call +1
        "lea r0, t\n.fill xD400\n.fill xD800\nhalt\nt halt\n", // push r0; rets -> jumps to t
    ];
    let mut evaluated = 0u64;
    for src in progs {
        let asm = dir.join("g.asm");
        std::fs::write(&asm, src).unwrap();
        evaluated += 1;
        let (off, _) = run_lace(&["run", "-m", asm.to_str().unwrap()]).expect("lace binary");
        let (on, _) = run_lace(&["run", "-m", "-f", "stack", asm.to_str().unwrap()]).expect("lace binary");
        // the same program as an object file (the loader path of `run` must initialise the flag as well)
        let obj = dir.join("g.lc3");
        let _ = run_lace(&["compile", asm.to_str().unwrap(), obj.to_str().unwrap()]);
        let (off_img, _) = run_lace(&["run", "-m", obj.to_str().unwrap()]).expect("lace binary");
        let (on_img, _) = run_lace(&["run", "-m", "-f", "stack", obj.to_str().unwrap()]).expect("lace binary");
        if off_img != 1 || on_img != 0 {
            verif_out(&format!("VERIF-COUNTEREXAMPLE name={} input=object file compiled from {:?} detail=exit status {} without the flag (expected 1), {} with -f stack (expected 0)", name, src, off_img, on_img));
            panic!("violation");
        }
        if off != 1 || on != 0 {
            verif_out(&format!("VERIF-COUNTEREXAMPLE name={} input=program {:?} detail=exit status {} without the flag (expected 1), {} with -f stack (expected 0)", name, src, off, on));
            panic!("violation");
        }
    }
    // wherever the command line ACCEPTS `-f stack` it takes effect: given before the subcommand it is either honoured (status 0, as
    // after the subcommand) or a usage error (status 2) - never accepted and then ignored (status 1: "run with -f stack")
    {
        let asm = dir.join("g.asm");
        std::fs::write(&asm, ".fill xD440\nhalt\n").unwrap();
        evaluated += 1;
        let (before, _) = run_lace(&["-f", "stack", "run", "-m", asm.to_str().unwrap()]).expect("lace binary");
        let (bare, _) = run_lace(&["-f", "stack", "-m", asm.to_str().unwrap()]).expect("lace binary");
        if !(before == 0 || before == 2) || bare != 0 {
            verif_out(&format!("VERIF-COUNTEREXAMPLE name={} input=`lace -f stack run -m prog` / `lace -f stack -m prog` (prog = PUSH r1; HALT) detail=exit status {} / {}: the flag was accepted on the command line and then ignored (expected 0 or a usage error 2 / 0)", name, before, bare));
            panic!("violation");
        }
    }
    // the flag changes nothing for programs that use none of the four mnemonics and never execute opcode 0xD:
    // same output and exit status with and without -f stack, same image
    let plain = [
        "reg\nhalt\n",
        "add r0, r7, #0\nputn\nhalt\n",
        "ld r1, v\nstr r1, r7, #-1\nldr r0, r7, #-1\nout\nhalt\nv .fill x41\n",
        "lea r0, s\nputs\njsr f\nhalt\nf ret\ns .stringz \"pop call\"\n",
    ];
    for src in plain {
        let asm = dir.join("n.asm");
        let obj = dir.join("n.lc3");
        std::fs::write(&asm, src).unwrap();
        evaluated += 1;
        let a = run_lace(&["run", "-m", asm.to_str().unwrap()]).expect("lace binary");
        let b = run_lace(&["run", "-m", "-f", "stack", asm.to_str().unwrap()]).expect("lace binary");
        let _ = run_lace(&["compile", "-f", "stack", asm.to_str().unwrap(), obj.to_str().unwrap()]);
        let img_on = std::fs::read(&obj).unwrap_or_default();
        let _ = run_lace(&["compile", asm.to_str().unwrap(), obj.to_str().unwrap()]);
        let img_off = std::fs::read(&obj).unwrap_or_default();
        if a != b || img_on != img_off || img_off.is_empty() {
            verif_out(&format!("VERIF-COUNTEREXAMPLE name={} input=program {:?} detail=without the flag: status {} output {:?}; with -f stack: status {} output {:?}; images equal: {}",
                name, src, a.0, String::from_utf8_lossy(&a.1), b.0, String::from_utf8_lossy(&b.1), img_on == img_off));
            panic!("violation");
        }
    }
    let _ = std::fs::remove_dir_all(&dir);
    verif_out(&format!("VERIF-NATIVE name={} evaluated={} distinct={}", name, evaluated, evaluated));
}

/// C07 / C05 at the process level (feature-flag initialisation per subcommand is caller history in main(), outside every
/// contract): 7 sources (plain, each stack mnemonic, a label out of range, a lexical error) x both feature settings: `check`,
/// `compile` and `run` never crash (exit 101 / signal); a source that check accepts compiles; a source that compile rejects
/// is an error for check and for run. (`check -f` is skipped when the subcommand does not take the option.)
#[test]
fn verif_native_check_cli() {
    let name = "verif_native_check_cli";
    if std::env::var("VERIF_LACE_BIN").is_err() { verif_out(&format!("VERIF-NATIVE name={} evaluated=0 distinct=0", name)); return; }
    let dir = std::env::temp_dir().join(format!("lace-verif-checkcli-{}", std::process::id()));
    std::fs::create_dir_all(&dir).unwrap();
    let sources = [
        ".orig x3000\nadd r0, r0, #1\nhalt\n.end\n",
        ".orig x3000\npush r0\nhalt\n.end\n",
        ".orig x3000\nhalt\npop r1\n.end\n",
        ".orig x3000\nhalt\nf rets\ncall f\n.end\n",
        "halt\nPush r2\n",
        "ld r0, far\nhalt\n.blkw x200\nfar .fill 1\n",
        "add r0, r0, #99999999\nhalt\n",
        // programs without a single statement
        "", "; only a comment\n", ".orig x3000\n.end\n",
    ];
    let mut evaluated = 0u64;
    let mut rejected = 0u64;
    for src in sources {
        for flag in [None, Some("stack")] {
            let asm = dir.join("c.asm");
            let obj = dir.join("c.lc3");
            std::fs::write(&asm, src).unwrap();
            let with = |sub: &str, extra: &[&str]| -> Vec<String> {
                let mut a = vec![sub.to_string()];
                if let Some(f) = flag { a.push("-f".into()); a.push(f.into()); }
                for e in extra { a.push(e.to_string()); }
                a
            };
            let go = |a: Vec<String>| { let r: Vec<&str> = a.iter().map(|s| s.as_str()).collect(); run_lace(&r).expect("lace binary").0 };
            let check = go(with("check", &[asm.to_str().unwrap()]));
            let compile = go(with("compile", &[asm.to_str().unwrap(), obj.to_str().unwrap()]));
            let run = go(with("run", &["-m", asm.to_str().unwrap()]));
            evaluated += 1;
            if compile != 0 { rejected += 1; }
            let setting = flag.map(|f| format!("-f {}", f)).unwrap_or("no feature flag".into());
            let mut bad = None;
            for (what, rc) in [("check", check), ("compile", compile), ("run", run)] {
                if rc == 101 || rc < 0 { bad = Some(format!("`lace {}` crashed (exit status {})", what, rc)); }
            }
            // clap's usage error (2) on `check -f ..`: the subcommand does not take the option; nothing to compare
            let check_takes_flag = !(flag.is_some() && check == 2);
            if bad.is_none() && check_takes_flag {
                if check == 0 && compile != 0 { bad = Some(format!("check reports success but compile rejects (exit {})", compile)); }
                if compile != 0 && check == 0 { bad = Some("compile rejects but check reports success".into()); }
                if compile != 0 && run == 0 { bad = Some("compile rejects but run succeeds".into()); }
            }
            if let Some(b) = bad {
                verif_out(&format!("VERIF-COUNTEREXAMPLE name={} input=source {:?} with {} detail={} (check {}, compile {}, run {})", name, src, setting, b, check, compile, run));
                panic!("violation");
            }
        }
    }
    let _ = std::fs::remove_dir_all(&dir);
    assert!(rejected > 0 && rejected < evaluated, "degenerate enumeration");
    verif_out(&format!("VERIF-NATIVE name={} evaluated={} distinct={}", name, evaluated, rejected));
}

/// C07 for `lace watch` (process level, timing-based so inconclusive runs are skipped, never reported): the file under watch is
/// rewritten with 4 sources in turn (stack mnemonics, label out of range, lexical error, plain); each re-check must not
/// crash the watcher and must give the verdict `lace check` gives for the same text under the same feature setting.
#[test]
fn verif_native_watch_cli() {
    use std::io::Read as _;
    let name = "verif_native_watch_cli";
    let bin = match std::env::var("VERIF_LACE_BIN") { Ok(b) => b, Err(_) => { verif_out(&format!("VERIF-NATIVE name={} evaluated=0 distinct=0", name)); return; } };
    let dir = std::env::temp_dir().join(format!("lace-verif-watch-{}", std::process::id()));
    std::fs::create_dir_all(&dir).unwrap();
    let asm = dir.join("w.asm");
    let log = dir.join("w.out");
    let sources = [
        ".orig x3000\npush r0\npop r0\nhalt\n.end\n",
        "ld r0, far\nhalt\n.blkw x200\nfar .fill 1\n",
        "add r0, r0, #99999999\nhalt\n",
        ".orig x3000\nadd r0, r0, #1\nhalt\n.end\n",
    ];
    let mut evaluated = 0u64;
    for flag in [None, Some("stack")] {
        std::fs::write(&asm, "halt\n").unwrap();
        let mut args: Vec<&str> = vec!["watch"];
        if let Some(f) = flag { args.push("-f"); args.push(f); }
        args.push(asm.to_str().unwrap());
        let out = std::fs::File::create(&log).unwrap();
        let err = out.try_clone().unwrap();
        let mut child = match std::process::Command::new(&bin).args(&args).stdin(std::process::Stdio::null()).stdout(out).stderr(err).spawn() { Ok(c) => c, Err(_) => continue };
        std::thread::sleep(std::time::Duration::from_millis(1500));
        if let Ok(Some(st)) = child.try_wait() {
            if flag.is_some() && st.code() == Some(2) { continue; }   // the subcommand does not take -f
        }
        let setting = flag.map(|f| format!("-f {}", f)).unwrap_or("no feature flag".into());
        'sources: for src in sources {
            let before = std::fs::metadata(&log).map(|m| m.len()).unwrap_or(0);
            std::fs::write(&asm, src).unwrap();
            // what check says about this text
            let mut cargs: Vec<&str> = vec!["check"];
            if let Some(f) = flag { cargs.push("-f"); cargs.push(f); }
            cargs.push(asm.to_str().unwrap());
            let check = run_lace(&cargs).expect("lace binary").0;
            let mut verdict = None;
            for _ in 0..100 {
                std::thread::sleep(std::time::Duration::from_millis(100));
                let mut text = String::new();
                if let Ok(mut f) = std::fs::File::open(&log) { let mut b = Vec::new(); let _ = f.read_to_end(&mut b); text = String::from_utf8_lossy(&b[(before as usize).min(b.len())..]).to_string(); }
                if let Ok(Some(st)) = child.try_wait() {
                    verif_out(&format!("VERIF-COUNTEREXAMPLE name={} input=watched file rewritten to {:?} with {} detail=`lace watch` died (exit status {:?}): {}", name, src, setting, st.code(),
                        text.lines().find(|l| l.contains("panicked")).unwrap_or("")));
                    panic!("violation");
                }
                if let Some(i) = text.find("Re-checking") {
                    let rest = &text[i..];
                    if rest.contains("no errors found") { verdict = Some(true); break; }
                    if rest.contains('\u{d7}') || rest.contains("Error") || rest.contains("error") { verdict = Some(false); break; }
                }
            }
            match verdict {
                None => { break 'sources; }    // no file event seen in 10 s: inconclusive, skip
                Some(ok) => {
                    evaluated += 1;
                    let mut ok = ok;
                    if ok != (check == 0) {
                        // a late event of the previous rewrite may have been answered: let things settle and read the LAST re-check
                        std::thread::sleep(std::time::Duration::from_millis(2000));
                        let mut b = Vec::new();
                        if let Ok(mut f) = std::fs::File::open(&log) { let _ = f.read_to_end(&mut b); }
                        let text = String::from_utf8_lossy(&b[(before as usize).min(b.len())..]).to_string();
                        if let Some(i) = text.rfind("Re-checking") {
                            let rest = &text[i..];
                            if rest.contains("no errors found") { ok = true; } else if rest.contains('\u{d7}') || rest.contains("Error") || rest.contains("error") { ok = false; }
                        }
                    }
                    if ok != (check == 0) {
                        let _ = child.kill(); let _ = child.wait();
                        verif_out(&format!("VERIF-COUNTEREXAMPLE name={} input=watched file rewritten to {:?} with {} detail=watch re-check says {} but `lace check` exits {}", name, src, setting, if ok { "success" } else { "error" }, check));
                        panic!("violation");
                    }
                }
            }
            std::thread::sleep(std::time::Duration::from_millis(700));   // let the debounce window close
        }
        let _ = child.kill();
        let _ = child.wait();
    }
    let _ = std::fs::remove_dir_all(&dir);
    verif_out(&format!("VERIF-NATIVE name={} evaluated={} distinct={}", name, evaluated, evaluated));
}

/// C15 at the process level (what a wrongly accepted trap does is console I/O, invisible in the machine state): `eval` of a
/// trap mnemonic followed by surplus operands is refused — nothing is printed, no input byte is consumed, R0 is untouched —
/// for 12 texts; observed as the exact program output of `move r0 x0041; eval <text>; eval putn; exit` with stdin "Q"
#[test]
fn verif_native_eval_refused_cli() {
    let name = "verif_native_eval_refused_cli";
    if std::env::var("VERIF_LACE_BIN").is_err() { verif_out(&format!("VERIF-NATIVE name={} evaluated=0 distinct=0", name)); return; }
    let dir = std::env::temp_dir().join(format!("lace-verif-evalcli-{}", std::process::id()));
    std::fs::create_dir_all(&dir).unwrap();
    let asm = dir.join("e.asm");
    std::fs::write(&asm, "halt\n").unwrap();
    let texts = ["out r1", "getc r3", "in r0", "putn #1", "puts r0", "putsp r0", "reg r1", "trap x21 r0", "trap x20 #1", "trap x26 x26", "out out", "OUT R0"];
    let mut evaluated = 0u64;
    // baseline: the same session without any eval (prints nothing of its own)
    let base = run_lace_stdin(&["debug", "-m", "--command", "move r0 x0041; exit", asm.to_str().unwrap()], b"Q").map(|r| r.1).unwrap_or_default();
    for t in texts {
        evaluated += 1;
        let script = format!("move r0 x0041; eval {}; eval putn; exit", t);
        let (code, out) = run_lace_stdin(&["debug", "-m", "--command", &script, asm.to_str().unwrap()], b"Q").expect("lace binary");
        let body = own_middle(&out, &base);
        if code != 0 || body.trim() != "65" {
            verif_out(&format!("VERIF-COUNTEREXAMPLE name={} input=script {:?} stdin \"Q\" detail=exit status {}, program output {:?}; a refused eval prints nothing and leaves R0 = x41, so the output is exactly \"65\"", name, script, code, body.trim()));
            panic!("violation");
        }
    }
    let _ = std::fs::remove_dir_all(&dir);
    verif_out(&format!("VERIF-NATIVE name={} evaluated={} distinct={}", name, evaluated, evaluated));
}


/// C09 at the process level (observe_at: stdout and exit status): 3 programs (output + normal end; output then PC leaving user
/// space = exit 238; a loop with PUTN) x 6 scripts of non-mutating commands (stepping, inspection, breakpoints that are passed):
/// `lace debug --minimal --command S` prints exactly what `lace run --minimal` prints and exits with the same status
#[test]
fn verif_native_transparency_cli() {
    let name = "verif_native_transparency_cli";
    if std::env::var("VERIF_LACE_BIN").is_err() { verif_out(&format!("VERIF-NATIVE name={} evaluated=0 distinct=0", name)); return; }
    let dir = std::env::temp_dir().join(format!("lace-verif-transcli-{}", std::process::id()));
    std::fs::create_dir_all(&dir).unwrap();
    let progs = [
        "lea r0, s\nputs\nld r0, c\nout\nhalt\ns .stringz \"hi \"\nc .fill x21\n",
        "ld r0, c\nout\nld r1, far\njmp r1\nc .fill x41\nfar .fill x2000\n",
        "and r1,r1,#0\nadd r1,r1,#3\nl add r0,r1,#0\nputn\nadd r1,r1,#-1\nbrp l\nhalt\n",
    ];
    let scripts = ["step; step; continue", "step into 3; registers; print r0; continue", "break add x3002; continue; break list; continue; continue",
        "assembly; print ^1; step into 100", "continue", "step into 2; quit"];
    let mut evaluated = 0u64;
    for src in progs {
        let asm = dir.join("t.asm");
        // baselines (same path, a program that only halts): what lace itself prints around the program's output in each mode
        let base_run = run_baseline(&asm);
        let base_dbg: Vec<String> = scripts.iter().map(|sc| run_lace_stdin(&["debug", "-m", "--command", sc, asm.to_str().unwrap()], b"").map(|r| r.1).unwrap_or_default()).collect();
        std::fs::write(&asm, src).unwrap();
        let (code0, out0) = run_lace_stdin(&["run", "-m", asm.to_str().unwrap()], b"").expect("lace binary");
        for (k, script) in scripts.iter().enumerate() {
            evaluated += 1;
            let (code1, out1) = run_lace_stdin(&["debug", "-m", "--command", script, asm.to_str().unwrap()], b"").expect("lace binary");
            let (own0, own1) = (own_middle(&out0, &base_run), own_middle(&out1, &base_dbg[k]));
            if code0 != code1 || own0.trim_end() != own1.trim_end() {
                verif_out(&format!("VERIF-COUNTEREXAMPLE name={} input=program {:?} script {:?} detail=run: exit {} output {:?}; debug: exit {} output {:?}", name, src, script, code0, own0, code1, own1));
                panic!("violation");
            }
        }
    }
    let _ = std::fs::remove_dir_all(&dir);
    verif_out(&format!("VERIF-NATIVE name={} evaluated={} distinct={}", name, evaluated, evaluated));
}

/// C02 / C03 / C18 exit statuses of the real process (the deductive checks see the documented status only as the argument of a
/// modelled exit): normal end 0; PC leaving [origin, xFE00) 238 (xEE) below and above; unknown trap vector 238; opcode xD
/// without the flag 1; running off the end into the HALT sentinel 0
#[test]
fn verif_native_exit_statuses_cli() {
    let name = "verif_native_exit_statuses_cli";
    if std::env::var("VERIF_LACE_BIN").is_err() { verif_out(&format!("VERIF-NATIVE name={} evaluated=0 distinct=0", name)); return; }
    let dir = std::env::temp_dir().join(format!("lace-verif-exitcli-{}", std::process::id()));
    std::fs::create_dir_all(&dir).unwrap();
    let cases: [(&str, &[&str], i32); 8] = [
        ("halt\n", &[], 0),
        ("add r0,r0,#1\n", &[], 0),                                   // runs into the implicit HALT
        ("ld r1, t\njmp r1\nt .fill x2000\n", &[], 238),            // below the origin
        ("ld r1, t\njmp r1\nt .fill xFE00\n", &[], 238),            // at the end of user space
        ("trap x30\n", &[], 238),                                      // unknown trap vector
        ("trap xFF\n", &[], 238),
        (".fill xD440\nhalt\n", &[], 1),                             // PUSH without -f stack
        (".fill xD440\nhalt\n", &["-f", "stack"], 0),
    ];
    let mut evaluated = 0u64;
    for (src, flags, want) in cases {
        evaluated += 1;
        let asm = dir.join("x.asm");
        std::fs::write(&asm, src).unwrap();
        let mut args: Vec<&str> = vec!["run", "-m"];
        args.extend_from_slice(flags);
        args.push(asm.to_str().unwrap());
        let (code, _) = run_lace_stdin(&args, b"").expect("lace binary");
        if code != want {
            verif_out(&format!("VERIF-COUNTEREXAMPLE name={} input=program {:?} flags {:?} detail=exit status {}, documented {}", name, src, flags, code, want));
            panic!("violation");
        }
    }
    let _ = std::fs::remove_dir_all(&dir);
    verif_out(&format!("VERIF-NATIVE name={} evaluated={} distinct={}", name, evaluated, evaluated));
}

/// C05 size extremes at the process level (rendering and memory are outside every contract): a lexer error, a parser error and
/// an end-of-file error on a line of more than 64K characters; `.blkw xFFFF` on 4000 lines and a 70000-character `.stringz`
/// under a 4 GB address-space limit: each is answered with an ordinary diagnostic (exit status 1) - no panic (101), no abort
/// (134 / signal), within the time limit
#[test]
fn verif_native_size_extremes_cli() {
    let name = "verif_native_size_extremes_cli";
    let bin = match std::env::var("VERIF_LACE_BIN") { Ok(b) => b, Err(_) => { verif_out(&format!("VERIF-NATIVE name={} evaluated=0 distinct=0", name)); return; } };
    let dir = std::env::temp_dir().join(format!("lace-verif-extremes-{}", std::process::id()));
    std::fs::create_dir_all(&dir).unwrap();
    let cases: Vec<(&str, String, i32)> = vec![
        ("unknown token at column 65540", format!("halt{}@\n", " ".repeat(65536)), 1),
        ("unknown token at column 70000 after a tab", format!("halt\t{}@\n", " ".repeat(70000)), 1),
        ("end of file after a 70000-character comment", format!("halt\nlbl ;{}", "c".repeat(70000)), 1),
        ("out-of-range literal at column 66000", format!("add r0, r0,{}#99\n", " ".repeat(66000)), 1),
        ("out-of-range literal at column 90000", format!("add r0, r0,{}#99\n", " ".repeat(90000)), 1),
        ("unknown token at column 300000", format!("halt{}@\n", " ".repeat(300000)), 1),
        ("out-of-range literal after 30000 tabs", format!("add r0, r0,{}#99\n", "\t".repeat(30000)), 1),
        (".blkw xFFFF on 4000 lines", ".blkw xFFFF\n".repeat(4000), 1),
        (".blkw #65535 on 4000 lines", ".blkw #65535\n".repeat(4000), 1),
        ("a 70000-character .stringz", format!(".stringz \"{}\"\n", "s".repeat(70000)), 1),
        ("a long line without any error", format!("halt ;{}\n", "c".repeat(70000)), 0),
    ];
    let mut evaluated = 0u64;
    for (what, src, want) in cases {
        evaluated += 1;
        let asm = dir.join("x.asm");
        std::fs::write(&asm, &src).unwrap();
        let cmd = format!("ulimit -v 4000000; exec timeout 60 '{}' check '{}'", bin, asm.to_str().unwrap());
        let out = std::process::Command::new("sh").args(["-c", &cmd]).stdin(std::process::Stdio::null()).output().expect("sh");
        let code = out.status.code().unwrap_or(-1);
        if code != want {
            let err = String::from_utf8_lossy(&out.stderr);
            let line = err.lines().find(|l| l.contains("panicked") || l.contains("memory allocation")).unwrap_or("").to_string();
            verif_out(&format!("VERIF-COUNTEREXAMPLE name={} input={} ({} bytes of source) detail=exit status {} of lace check (expected {}) {}", name, what, src.len(), code, want, line));
            panic!("violation");
        }
    }
    // the debugger's own source view (non-minimal mode renders a labelled excerpt) of a statement that starts beyond column 64K:
    // the session goes on and ends like the undebugged run (C09), no panic
    {
        evaluated += 1;
        let asm = dir.join("y.asm");
        std::fs::write(&asm, format!("{}add r0, r0, #1\nhalt\n", " ".repeat(70000))).unwrap();
        let cmd = format!("exec timeout 60 '{}' debug --command 'assembly; step; print r0' '{}'", bin, asm.to_str().unwrap());
        let out = std::process::Command::new("sh").args(["-c", &cmd]).stdin(std::process::Stdio::null()).output().expect("sh");
        let code = out.status.code().unwrap_or(-1);
        if code != 0 {
            let err = String::from_utf8_lossy(&out.stderr);
            let line = err.lines().find(|l| l.contains("panicked")).unwrap_or("").to_string();
            verif_out(&format!("VERIF-COUNTEREXAMPLE name={} input=`lace debug --command 'assembly; step; print r0'` on a program whose first statement starts at column 70000 detail=exit status {} (expected 0) {}", name, code, line));
            panic!("violation");
        }
    }
    let _ = std::fs::remove_dir_all(&dir);
    verif_out(&format!("VERIF-NATIVE name={} evaluated={} distinct={}", name, evaluated, evaluated));
}

fn run_lace_full(args: &[&str], input: &[u8]) -> Option<(i32, String, String)> {
    use std::io::Write as _;
    let bin = std::env::var("VERIF_LACE_BIN").ok()?;
    let mut child = std::process::Command::new(bin).args(args).stdin(std::process::Stdio::piped()).stdout(std::process::Stdio::piped())
        .stderr(std::process::Stdio::piped()).spawn().ok()?;
    if let Some(mut stdin) = child.stdin.take() { let _ = stdin.write_all(input); }
    let out = child.wait_with_output().ok()?;
    Some((out.status.code().unwrap_or(-1), String::from_utf8_lossy(&out.stdout).to_string(), String::from_utf8_lossy(&out.stderr).to_string()))
}

/// C14 transport independence at the process level (the Stdin reader's I/O loop is outside every contract): 5 scripts with empty
/// commands (blank lines, `;;`, `; ;`, leading / trailing separators) mean the same — exit status, stdout and stderr — as the
/// script without the empty commands given through --command, when given through --command, through stdin separated by newlines,
/// through stdin separated by ';', and split between --command and stdin at every position
#[test]
fn verif_native_transport_cli() {
    let name = "verif_native_transport_cli";
    if std::env::var("VERIF_LACE_BIN").is_err() { verif_out(&format!("VERIF-NATIVE name={} evaluated=0 distinct=0", name)); return; }
    let dir = std::env::temp_dir().join(format!("lace-verif-transport-{}", std::process::id()));
    std::fs::create_dir_all(&dir).unwrap();
    let asm = dir.join("t.asm");
    std::fs::write(&asm, "lea r0, s\nputs\nadd r1, r1, #3\nhalt\ns .stringz \"hi\"\n").unwrap();
    let a = asm.to_str().unwrap();
    let scripts: [&[&str]; 5] = [
        &["registers", "", "print r0", "", "echo done", "move r0 5", " ", "print r0"],
        &["", "step", "", "", "print r1", "step into 2", "print r1", ""],
        &["break add x3002", "continue", "", "print r1", "", "continue"],
        &["echo a", "", "echo b", " ", "", "echo c", "quit", "echo never"],
        &["", "", "step", "registers"],
    ];
    let mut evaluated = 0u64;
    for sc in scripts {
        let plain: Vec<&str> = sc.iter().copied().filter(|c| !c.trim().is_empty()).collect();
        let reference = run_lace_full(&["debug", "-m", "--command", &plain.join(";"), a], b"").expect("lace binary");
        let mut variants: Vec<(String, Option<String>, String)> = vec![
            ("--command, ';'".into(), Some(sc.join(";")), String::new()),
            ("stdin, newlines".into(), None, sc.join("\n") + "\n"),
            ("stdin, ';'".into(), None, sc.join(";") + "\n"),
        ];
        for k in 1..sc.len() {
            variants.push((format!("split after {} commands", k), Some(sc[..k].join(";")), sc[k..].join("\n") + "\n"));
        }
        for (how, arg, input) in variants {
            evaluated += 1;
            let got = match &arg {
                Some(c) => run_lace_full(&["debug", "-m", "--command", c, a], input.as_bytes()),
                None => run_lace_full(&["debug", "-m", a], input.as_bytes()),
            }.expect("lace binary");
            if got != reference {
                verif_out(&format!("VERIF-COUNTEREXAMPLE name={} input=script {:?} via {} detail=exit {} stdout {:?} stderr {:?}; the same commands without the empty ones through --command: exit {} stdout {:?} stderr {:?}",
                    name, sc, how, got.0, got.1, got.2, reference.0, reference.1, reference.2));
                panic!("violation");
            }
        }
    }
    let _ = std::fs::remove_dir_all(&dir);
    verif_out(&format!("VERIF-NATIVE name={} evaluated={} distinct={}", name, evaluated, evaluated));
}
