// BOUNDED native enumeration (engine N) — child module of src/debugger/command/parse/name.rs  (C14: command name tables)
use super::*;
include!("common.inc");

fn resolve(line: &str) -> Result<Result<CommandName, ()>, String> {
    let leaked: &'static str = Box::leak(line.to_string().into_boxed_str());
    verif_catch(|| Arguments::from(leaked).get_command_name().map_err(|_| ()))
}

/// EVERY name and alias of every command table (as written, lower-case, upper-case, alternating case) resolves to its
/// command; every documented misspelling and the aliases with one character appended do not resolve to a different command;
/// two-word commands: every (command word, sub-command alias) pair
#[test]
fn verif_native_command_names() {
    let name = "verif_native_command_names";
    let mut evaluated = 0u64;
    let cases = |s: &str| -> Vec<String> {
        let alt: String = s.chars().enumerate().map(|(i, c)| if i % 2 == 0 { c.to_ascii_uppercase() } else { c.to_ascii_lowercase() }).collect();
        vec![s.to_string(), s.to_ascii_lowercase(), s.to_ascii_uppercase(), alt]
    };
    let fail = |input: &str, d: String| { verif_out(&format!("VERIF-COUNTEREXAMPLE name={} input={:?} detail={}", name, input, d)); panic!("violation"); };
    for entry in COMMANDS {
        for cand in entry.candidates {
            for v in cases(cand) {
                evaluated += 1;
                match resolve(&v) { Err(m) => fail(&v, format!("panic: {}", m)),
                    Ok(r) => if r != Ok(entry.name) { fail(&v, format!("resolves to {:?}, documented command {:?}", r, entry.name)); } }
            }
        }
        for mis in entry.misspellings {
            evaluated += 1;
            // a misspelling only triggers a suggestion — unless the same word is a real alias of some command (first match wins)
            let is_alias = COMMANDS.iter().any(|e| e.candidates.iter().any(|c| c.eq_ignore_ascii_case(mis)))
                || COMMAND_STEP.iter().chain(COMMAND_BREAK.iter()).any(|c| c.eq_ignore_ascii_case(mis));
            match resolve(mis) { Err(m) => fail(mis, format!("panic: {}", m)),
                Ok(r) => if r.is_ok() && !is_alias { fail(mis, format!("misspelling accepted as {:?}", r)); } }
        }
    }
    for (words, subs, default) in [(COMMAND_STEP, SUBCOMMANDS_STEP, Some(CommandName::StepOver)), (COMMAND_BREAK, SUBCOMMANDS_BREAK, None)] {
        for w in words {
            for wv in cases(w) {
                evaluated += 1;
                match resolve(&wv) { Err(m) => fail(&wv, format!("panic: {}", m)),
                    Ok(r) => if r.ok() != default { fail(&wv, format!("without a sub-command resolves to {:?}, documented {:?}", r, default)); } }
                for entry in subs {
                    for cand in entry.candidates {
                        for cv in cases(cand) {
                            evaluated += 1;
                            let line = format!("{} {}", wv, cv);
                            match resolve(&line) { Err(m) => fail(&line, format!("panic: {}", m)),
                                Ok(r) => if r != Ok(entry.name) { fail(&line, format!("resolves to {:?}, documented command {:?}", r, entry.name)); } }
                        }
                    }
                }
            }
        }
    }
    verif_out(&format!("VERIF-NATIVE name={} evaluated={} distinct={}", name, evaluated, COMMANDS.len()));
}
