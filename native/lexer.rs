// BOUNDED native enumeration (engine N) — child module of src/lexer/mod.rs  (C05 totality of the text layer, C01/C04 literal values)
use super::*;
include!("common.inc");

fn leak(s: &str) -> &'static str { Box::leak(s.to_string().into_boxed_str()) }
fn init_features() { let _ = verif_catch(|| crate::features::init(Default::default())); }

/// every string of <= 4 characters over a 17-character alphabet that contains every token-starting character, a 2-byte and a
/// 4-byte character: tokenising never panics, terminates, every span lies inside the source on character boundaries
#[test]
fn verif_native_lexer_total() {
    let name = "verif_native_lexer_total";
    init_features();
    let alpha = ['x', '0', 'r', '7', '#', '-', '.', '"', '\\', ';', ' ', '\n', 'a', 'é', '🍋', ':', 'f'];
    let inputs = verif_strings(&alpha, if verif_deep() { 5 } else { 4 });
    let mut evaluated = 0u64;
    let mut kinds = std::collections::HashSet::new();
    for s in &inputs {
        evaluated += 1;
        let src = leak(s);
        let r = verif_catch(|| {
            let mut cur = Cursor::new(src);
            let mut toks = Vec::new();
            for _ in 0..(src.len() + 2) {
                match cur.advance_token() {
                    Err(_) => return Ok(toks),
                    Ok(t) => { if t.kind == TokenKind::Eof { return Ok(toks); } toks.push(t); }
                }
            }
            Err("does not terminate")
        });
        match r {
            Err(msg) => { verif_out(&format!("VERIF-COUNTEREXAMPLE name={} input={:?} detail=panic: {}", name, s, msg)); panic!("violation"); }
            Ok(Err(m)) => { verif_out(&format!("VERIF-COUNTEREXAMPLE name={} input={:?} detail={}", name, s, m)); panic!("violation"); }
            Ok(Ok(toks)) => {
                for t in toks {
                    let (a, b) = (t.span.offs(), t.span.end());
                    if b > src.len() || !src.is_char_boundary(a) || !src.is_char_boundary(b) || b <= a {
                        verif_out(&format!("VERIF-COUNTEREXAMPLE name={} input={:?} detail=token {:?} span {}..{} not inside the source on character boundaries", name, s, t.kind, a, b));
                        panic!("violation");
                    }
                    kinds.insert(std::mem::discriminant(&t.kind));
                }
            }
        }
    }
    verif_out(&format!("VERIF-NATIVE name={} evaluated={} distinct={}", name, evaluated, kinds.len() + inputs.len()));
}

fn lex_one(s: &str) -> Result<Result<Token, ()>, String> {
    let src = leak(s);
    verif_catch(|| { let mut cur = Cursor::new(src); cur.advance_token().map_err(|_| ()) })
}

/// literal values: every hex literal x0..xFFFF (both prefixes, both cases), x10000, negative hex; every decimal #-32769..#65536
#[test]
fn verif_native_literals() {
    let name = "verif_native_literals";
    init_features();
    let mut evaluated = 0u64;
    let fail = |input: &str, detail: String| { verif_out(&format!("VERIF-COUNTEREXAMPLE name={} input={:?} detail={}", name, input, detail)); panic!("violation"); };
    for v in 0u32..=0x10001 {
        for text in [format!("x{:X}", v), format!("0x{:x}", v), format!("X{:04x}", v)] {
            evaluated += 1;
            match lex_one(&text) {
                Err(m) => fail(&text, format!("panic: {}", m)),
                Ok(Ok(t)) => {
                    if v > 0xFFFF { fail(&text, format!("accepted as {:?} although it needs more than 16 bits", t.kind)); }
                    if t.kind != TokenKind::Lit(LiteralKind::Hex(v as u16)) || t.span.offs() != 0 || t.span.len() != text.len() {
                        fail(&text, format!("lexed as {:?} span {}+{}", t.kind, t.span.offs(), t.span.len()));
                    }
                }
                Ok(Err(())) => if v <= 0xFFFF { fail(&text, "rejected although it fits 16 bits".to_string()); },
            }
        }
    }
    // negative hex: x-1 .. x-8000 are the two's complement of the magnitude; x-8001 does not fit
    for m in [1u32, 2, 0x10, 0x7FFF, 0x8000, 0x8001, 0xFFFF] {
        let text = format!("x-{:X}", m);
        evaluated += 1;
        match lex_one(&text) {
            Err(e) => fail(&text, format!("panic: {}", e)),
            // beyond -0x8000 the token must not become a number (the lexer hands it on as an identifier, which no operand accepts)
            Ok(Ok(t)) => if m > 0x8000 { if matches!(t.kind, TokenKind::Lit(_)) { fail(&text, format!("lexed as {:?}", t.kind)); } }
                         else if t.kind != TokenKind::Lit(LiteralKind::Hex((0x10000 - m) as u16)) { fail(&text, format!("lexed as {:?}", t.kind)); },
            Ok(Err(())) => if m <= 0x8000 { fail(&text, "rejected".to_string()); },
        }
    }
    for v in -32770i64..=65537 {
        let text = format!("#{}", v);
        evaluated += 1;
        match lex_one(&text) {
            Err(m) => fail(&text, format!("panic: {}", m)),
            Ok(Ok(t)) => {
                if v < -32768 || v > 65535 { fail(&text, format!("accepted as {:?} although it does not fit 16 bits", t.kind)); }
                if t.kind != TokenKind::Lit(LiteralKind::Dec(v as u16 as i16)) { fail(&text, format!("lexed as {:?}", t.kind)); }
            }
            Ok(Err(())) => if v >= -32768 && v <= 65535 { fail(&text, "rejected although it fits 16 bits".to_string()); },
        }
    }
    verif_out(&format!("VERIF-NATIVE name={} evaluated={} distinct={}", name, evaluated, evaluated));
}

/// keyword recognition is case-insensitive and exact: every mnemonic / trap alias / directive in lower, upper and mixed case
#[test]
fn verif_native_keywords() {
    let name = "verif_native_keywords";
    init_features();
    let words = ["add", "and", "br", "brn", "brz", "brp", "brnz", "brzp", "brnp", "brnzp", "jmp", "jsr", "jsrr", "ld", "ldi", "ldr", "lea",
        "not", "ret", "rti", "st", "sti", "str", "trap", "getc", "out", "puts", "in", "putsp", "halt", "putn", "reg",
        ".orig", ".end", ".stringz", ".blkw", ".fill", ".break"];
    let mut evaluated = 0u64;
    for w in words {
        let lower = lex_one(w);
        let mixed: String = w.chars().enumerate().map(|(i, c)| if i % 2 == 0 { c.to_ascii_uppercase() } else { c }).collect();
        for variant in [w.to_ascii_uppercase(), mixed] {
            evaluated += 1;
            let got = lex_one(&variant);
            let same = match (&lower, &got) { (Ok(Ok(a)), Ok(Ok(b))) => a.kind == b.kind && a.kind != TokenKind::Label, _ => false };
            if !same { verif_out(&format!("VERIF-COUNTEREXAMPLE name={} input={:?} detail=lexed {:?} but {:?} lexes as {:?}", name, variant, got.map(|r| r.map(|t| t.kind)), w, lower.as_ref().map(|r| r.as_ref().map(|t| t.kind)))); panic!("violation"); }
        }
    }
    verif_out(&format!("VERIF-NATIVE name={} evaluated={} distinct={}", name, evaluated, words.len()));
}
