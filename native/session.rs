// BOUNDED native enumeration (engine N) — child module of src/runtime.rs: whole debugger SESSIONS on the real code
// (C09 transparency, C10 step counts, C12 reset, C16 progress). The deductive checks of these properties are per call;
// the session-level statements are only checked here, up to the stated bounds.
use super::*;
include!("common.inc");

fn leak(s: &str) -> &'static str { Box::leak(s.to_string().into_boxed_str()) }

fn build(src: &'static str, script: Option<&str>) -> RunEnvironment {
    crate::symbol::reset_state();
    let mut air = crate::parser::AsmParser::new(src).expect("lex").parse().expect("parse");
    air.backpatch().expect("backpatch");
    RunEnvironment::try_from(air, script.map(|s| Options { command: Some(s.to_string()) })).expect("emit")
}
fn same_state(a: &RunState, b: &RunState) -> Option<String> {
    if a.pc != b.pc { return Some(format!("PC {:04x} vs {:04x}", a.pc, b.pc)); }
    if a.reg != b.reg { return Some(format!("registers {:04x?} vs {:04x?}", a.reg, b.reg)); }
    if a.flag as u16 != b.flag as u16 { return Some(format!("CC {:03b} vs {:03b}", a.flag as u16, b.flag as u16)); }
    for i in 0..MEMORY_MAX { if a.mem[i] != b.mem[i] { return Some(format!("memory[{:04x}] {:04x} vs {:04x}", i, a.mem[i], b.mem[i])); } }
    None
}
/// the reference machine advanced by `k` instructions (never executing HALT, never leaving user space)
fn advance(state: &mut RunState, k: usize) -> usize {
    let mut n = 0;
    while n < k {
        let instr = state.mem[state.pc as usize];
        if instr == 0xF025 || state.check_pc_bounds() != Ordering::Equal { break; }
        state.pc += 1;
        state.execute(instr);
        n += 1;
    }
    n
}
/// run `f` on its own thread; None if it does not finish within `secs` (a livelock)
fn with_timeout<T: Send + 'static>(secs: u64, f: impl FnOnce() -> T + Send + 'static) -> Option<T> {
    let (tx, rx) = std::sync::mpsc::channel();
    std::thread::spawn(move || { let _ = tx.send(f()); });
    rx.recv_timeout(std::time::Duration::from_secs(secs)).ok()
}
fn init() {
    let _ = verif_catch(|| crate::features::init(Default::default()));
    crate::output::Output::set_minimal(true);
}

const P1: &str = ".orig x3000\nand r0,r0,#0\nadd r0,r0,#3\nloop jsr sub\nadd r0,r0,#-1\nbrp loop\nlea r1, data\nst r0, data\nhalt\nsub add r2,r2,#1\nret\ndata .fill x0\n";
const P2: &str = "lea r0, patch\nldr r1, r0, #0\n.break\npatch add r3,r3,#1\nst r1, later\nadd r3,r3,#2\nlater add r3,r3,#4\nhalt\n";

/// C09: 2 programs (loop + JSR/RET + store; .break + self-modifying store) x every script of <= 3 commands over 17
/// execution-control / inspection commands, followed by end of input: same final registers, memory, PC and CC as the run
/// without the debugger
#[test]
fn verif_native_transparency() {
    let name = "verif_native_transparency";
    let cmds = ["step", "step into 3", "step into 0", "continue", "print r1", "print x3002", "print loop+1", "assembly", "assembly x2fff",
        "assembly x3001", "registers", "break list", "break add x3003", "break remove x3003", "echo hé é", "help", "step out"];
    let n = cmds.len();
    let mut evaluated = 0u64;
    for prog in [P1, P2] {
        let prog: &'static str = prog;
        let plain = with_timeout(20, move || { init(); let mut e = build(prog, None); e.run(); e.state }).expect("plain run");
        for len in 0..=(if verif_deep() { 4usize } else { 3 }) {
            for code in 0..n.pow(len as u32) {
                let mut c = code;
                let mut script = String::new();
                for _ in 0..len { script.push_str(cmds[c % n]); script.push_str("; "); c /= n; }
                evaluated += 1;
                let s2 = script.clone();
                let r = with_timeout(20, move || verif_catch(move || { init(); let mut e = build(prog, Some(&s2)); e.run(); e.state }));
                let fail = |d: String| { verif_out(&format!("VERIF-COUNTEREXAMPLE name={} input=program {:?} script {:?} detail={}", name, prog, script, d)); std::process::exit(1); };
                match r {
                    None => fail("session does not terminate".to_string()),
                    Some(Err(m)) => fail(format!("panic: {}", m)),
                    Some(Ok(st)) => if let Some(d) = same_state(&st, &plain) { fail(format!("final state differs from the undebugged run: {}", d)); },
                }
            }
        }
    }
    verif_out(&format!("VERIF-NATIVE name={} evaluated={} distinct={}", name, evaluated, evaluated));
}

/// C10: `step into k` sequences (k in 0,1,2,5,40) of length <= 3 followed by `exit`: the paused machine is the reference machine
/// advanced by sum(max(k,1)) instructions (stopping before HALT)
#[test]
fn verif_native_step_counts() {
    let name = "verif_native_step_counts";
    let ks = [0usize, 1, 2, 5, 40];
    let mut evaluated = 0u64;
    for len in 1..=3usize {
        for code in 0..ks.len().pow(len as u32) {
            let mut c = code;
            let mut script = String::new();
            let mut total = 0usize;
            for _ in 0..len { let k = ks[c % ks.len()]; c /= ks.len(); script.push_str(&format!("step into {}; ", k)); total += k.max(1); }
            script.push_str("exit");
            evaluated += 1;
            let s2 = script.clone();
            let r = with_timeout(20, move || verif_catch(move || {
                init();
                let mut e = build(P1, Some(&s2)); e.run();
                let mut reference = build(P1, None).state; advance(&mut reference, total);
                (e.state, reference)
            }));
            let fail = |d: String| { verif_out(&format!("VERIF-COUNTEREXAMPLE name={} input=script {:?} detail={}", name, script, d)); std::process::exit(1); };
            match r {
                None => fail("session does not terminate".to_string()),
                Some(Err(m)) => fail(format!("panic: {}", m)),
                Some(Ok((st, reference))) => if let Some(d) = same_state(&st, &reference) { fail(format!("after {} instructions the paused machine differs from the reference: {}", total, d)); },
            }
        }
    }
    verif_out(&format!("VERIF-NATIVE name={} evaluated={} distinct={}", name, evaluated, evaluated));
}

const P3: &str = ".orig x3000\nld r1, below\nld r2, above\nld r3, stackp\nld r0, val\nstr r0, r1, #0\nstr r0, r2, #0\nstr r0, r3, #0\nst r0, code\nadd r4,r4,#5\ncode and r5,r5,#0\nhalt\nbelow .fill x2FFF\nabove .fill xFE00\nstackp .fill xFDFF\nval .fill x1234\n";

/// C12: after stores below the origin, at/above xFE00, into the stack area and into the program's own code, moved registers,
/// memory and PC, and eval: `reset` (also repeated, also followed by a complete run) restores the loaded machine exactly
#[test]
fn verif_native_reset() {
    let name = "verif_native_reset";
    let prefixes = ["continue", "step into 6", "step into 9; move r6 x7777; move x3001 xBEEF", "continue; goto x3003; move code 1", "step into 4; eval add r7, r7, #1; eval st r0, val",
        "continue; reset; continue", "move r0 1; reset; step into 2"];
    let mut evaluated = 0u64;
    for p in prefixes {
        for tail in ["reset; exit", "reset; reset; exit"] {
            evaluated += 1;
            let script = format!("{}; {}", p, tail);
            let s2 = script.clone();
            let r = with_timeout(20, move || verif_catch(move || { init(); let initial = build(P3, None).state; let mut e = build(P3, Some(&s2)); e.run(); (e.state, initial) }));
            let fail = |d: String| { verif_out(&format!("VERIF-COUNTEREXAMPLE name={} input=script {:?} detail={}", name, script, d)); std::process::exit(1); };
            match r {
                None => fail("session does not terminate".to_string()),
                Some(Err(m)) => fail(format!("panic: {}", m)),
                Some(Ok((st, initial))) => if let Some(d) = same_state(&st, &initial) { fail(format!("state after reset differs from the loaded machine: {}", d)); },
            }
        }
        // reset followed by a complete run behaves like a fresh run
        evaluated += 1;
        let script = format!("{}; reset; continue; quit", p);
        let s2 = script.clone();
        let r = with_timeout(20, move || verif_catch(move || { init(); let mut fresh = build(P3, None); fresh.run(); let mut e = build(P3, Some(&s2)); e.run(); (e.state, fresh.state) }));
        match r {
            None => { verif_out(&format!("VERIF-COUNTEREXAMPLE name={} input=script {:?} detail=session does not terminate", name, script)); std::process::exit(1); }
            Some(Err(m)) => { verif_out(&format!("VERIF-COUNTEREXAMPLE name={} input=script {:?} detail=panic: {}", name, script, m)); std::process::exit(1); }
            Some(Ok((st, fresh))) => if let Some(d) = same_state(&st, &fresh) {
                verif_out(&format!("VERIF-COUNTEREXAMPLE name={} input=script {:?} detail=run after reset differs from a fresh run: {}", name, script, d)); std::process::exit(1);
            },
        }
    }
    verif_out(&format!("VERIF-NATIVE name={} evaluated={} distinct={}", name, evaluated, evaluated));
}

/// C16: programs that jump to 0xFFFF, below the origin, to 0xFE00, or park on HALT x every script of <= 3 resuming commands:
/// the session terminates (end of input acts as quit)
#[test]
fn verif_native_progress() {
    let name = "verif_native_progress";
    let progs = [
        "ld r0, t\njmp r0\nt .fill xFFFF\n", "ld r0, t\njmp r0\nt .fill x2FFF\n", "ld r0, t\njmp r0\nt .fill xFE00\n", "ld r0, t\njmp r0\nt .fill xFDFF\n",
        "add r0,r0,#1\nhalt\n", "lea r0, h\njmp r0\nadd r1,r1,#1\nh halt\n", ".break\nhalt\n",
    ];
    let cmds = ["continue", "step", "step into 3", "step out", "break add x3001", "goto x3000"];
    let n = cmds.len();
    let mut evaluated = 0u64;
    for prog in progs {
        let prog: &'static str = prog;
        for len in 0..=3usize {
            for code in 0..n.pow(len as u32) {
                let mut c = code;
                let mut script = String::new();
                for _ in 0..len { script.push_str(cmds[c % n]); script.push_str("; "); c /= n; }
                evaluated += 1;
                let s2 = script.clone();
                // programs that leave user space end in process::exit(0xEE) once the debugger has detached: run them only while attached
                let s3 = format!("{}exit", s2);
                let r = with_timeout(10, move || verif_catch(move || { init(); let mut e = build(prog, Some(&s3)); e.run(); }));
                match r {
                    None => { verif_out(&format!("VERIF-COUNTEREXAMPLE name={} input=program {:?} script {:?} detail=the debugger spins: no instruction executed and no command consumed", name, prog, script)); std::process::exit(1); }
                    Some(Err(m)) => { verif_out(&format!("VERIF-COUNTEREXAMPLE name={} input=program {:?} script {:?} detail=panic: {}", name, prog, script, m)); std::process::exit(1); }
                    Some(Ok(())) => (),
                }
            }
        }
    }
    verif_out(&format!("VERIF-NATIVE name={} evaluated={} distinct={}", name, evaluated, evaluated));
}

const P4: &str = ".orig x3000\nadd r1,r1,#1\nadd r1,r1,#1\nadd r1,r1,#1\nadd r1,r1,#1\nadd r1,r1,#1\nhalt\ndata .fill x1234\nother .fill x5678\nptr .fill x3007\n";

/// C15: at every PC reached by `step into k` (k = 0..=5): eval of register/immediate, label-operand (LD, LDI, LEA, ST) and
/// base+offset forms applies the instruction to the current state — a label denotes its own address at every PC, the PC does
/// not change; BR*, RTI, HALT, unknown traps, malformed text have no effect and do not end the session
#[test]
fn verif_native_eval() {
    let name = "verif_native_eval";
    let mut evaluated = 0u64;
    for k in 0..=5usize {
        let steps = if k == 0 { String::new() } else { format!("step into {}; ", k) };
        // (eval text, check on (before, after))
        let cases: Vec<(&str, Box<dyn Fn(&RunState, &RunState) -> Option<String> + Send>)> = vec![
            ("add r2, r1, #3", Box::new(|b, a| if a.reg[2] == b.reg[1].wrapping_add(3) && a.pc == b.pc { None } else { Some(format!("r2={:04x} pc={:04x}", a.reg[2], a.pc)) })),
            ("ld r0, data", Box::new(|b, a| if a.reg[0] == 0x1234 && a.pc == b.pc { None } else { Some(format!("r0={:04x}, expected the word at `data` (1234)", a.reg[0])) })),
            ("lea r3, other", Box::new(|b, a| if a.reg[3] == 0x3007 && a.pc == b.pc { None } else { Some(format!("r3={:04x}, expected the address of `other` (3007)", a.reg[3])) })),
            ("ldi r4, ptr", Box::new(|_b, a| if a.reg[4] == 0x5678 { None } else { Some(format!("r4={:04x}, expected 5678", a.reg[4])) })),
            ("st r1, other", Box::new(|b, a| if a.mem[0x3007] == b.reg[1] && a.mem[0x3006] == 0x1234 { None } else { Some(format!("mem[3007]={:04x}", a.mem[0x3007])) })),
            ("ldr r5, r6, #0", Box::new(|b, a| if a.reg[5] == b.mem[b.reg[6] as usize] { None } else { Some(format!("r5={:04x}", a.reg[5])) })),
            ("brnzp data", Box::new(|b, a| same_state(a, b))),
            ("rti", Box::new(|b, a| same_state(a, b))),
            ("halt", Box::new(|b, a| same_state(a, b))),
            ("trap x30", Box::new(|b, a| same_state(a, b))),
            ("add r0, r0", Box::new(|b, a| same_state(a, b))),
            ("add r0, r0, #1 r2", Box::new(|b, a| same_state(a, b))),
            ("ld r0, nolabel", Box::new(|b, a| same_state(a, b))),
            (".fill x1", Box::new(|b, a| same_state(a, b))),
        ];
        for (text, check) in cases {
            evaluated += 1;
            let script_a = format!("{}exit", steps);
            let script_b = format!("{}eval {}; exit", steps, text);
            let r = with_timeout(20, move || verif_catch(move || {
                init();
                let mut before = build(P4, Some(&script_a)); before.run();
                let mut after = build(P4, Some(&script_b)); after.run();
                check(&before.state, &after.state)
            }));
            let fail = |d: String| { verif_out(&format!("VERIF-COUNTEREXAMPLE name={} input=after {} executed instructions: eval {} detail={}", name, k, text, d)); std::process::exit(1); };
            match r { None => fail("session does not terminate".to_string()), Some(Err(m)) => fail(format!("panic: {}", m)), Some(Ok(Some(d))) => fail(d), Some(Ok(None)) => () }
        }
    }
    verif_out(&format!("VERIF-NATIVE name={} evaluated={} distinct={}", name, evaluated, evaluated));
}

/// reference for `step`: run until PC reaches the address following the current instruction (whole subroutine for JSR/JSRR)
fn advance_until(state: &mut RunState, target: u16, bps: &[u16]) {
    let mut first = true;
    loop {
        let instr = state.mem[state.pc as usize];
        if instr == 0xF025 || state.check_pc_bounds() != Ordering::Equal { break; }
        if !first && (state.pc == target || bps.contains(&state.pc)) { break; }
        first = false;
        state.pc += 1;
        state.execute(instr);
        if state.pc == target { break; }
    }
}

/// C10: every sequence of <= 4 commands over { step, step into 1, step into 3 } on a program with a loop and a JSR/RET
/// subroutine, followed by `exit`: the paused machine equals the reference machine (`step` = one instruction, or the whole
/// subroutine when it is a call)
#[test]
fn verif_native_step_over() {
    let name = "verif_native_step_over";
    let cmds = ["step", "step into 1", "step into 3"];
    let n = cmds.len();
    let mut evaluated = 0u64;
    for len in 1..=4usize {
        for code in 0..n.pow(len as u32) {
            let mut c = code;
            let mut seq = Vec::new();
            for _ in 0..len { seq.push(c % n); c /= n; }
            let script: String = seq.iter().map(|i| format!("{}; ", cmds[*i])).collect::<String>() + "exit";
            evaluated += 1;
            let s2 = script.clone();
            let seq2 = seq.clone();
            let r = with_timeout(20, move || verif_catch(move || {
                init();
                let mut e = build(P1, Some(&s2)); e.run();
                let mut reference = build(P1, None).state;
                for i in &seq2 {
                    match i { 0 => { if ref_call(reference.mem[reference.pc as usize]) { let t = reference.pc.wrapping_add(1); advance_until(&mut reference, t, &[]); } else { advance(&mut reference, 1); } } 1 => { advance(&mut reference, 1); } _ => { advance(&mut reference, 3); } }
                }
                (e.state, reference)
            }));
            let fail = |d: String| { verif_out(&format!("VERIF-COUNTEREXAMPLE name={} input=script {:?} detail={}", name, script, d)); std::process::exit(1); };
            match r { None => fail("session does not terminate".to_string()), Some(Err(m)) => fail(format!("panic: {}", m)),
                Some(Ok((st, reference))) => if let Some(d) = same_state(&st, &reference) { fail(format!("paused machine differs from the reference: {}", d)); } }
        }
    }
    verif_out(&format!("VERIF-NATIVE name={} evaluated={} distinct={}", name, evaluated, evaluated));
}

/// a breakpoint on a ONE-instruction loop whose every execution is observable (CALL to itself pushes the PC: R7 goes down by one)
const P6: &str = "and r0,r0,#0\n.break\nloop call loop\n";
const P5: &str = "and r0,r0,#0\nadd r0,r0,#3\nloop .break\nadd r1,r1,#1\nadd r0,r0,#-1\nbrp loop\n.break\n.break\nhalt\n";

/// reference for `continue`: run until the PC arrives at an address in `bps` (not counting the one we start on), HALT or the
/// end of user space
fn continue_ref(state: &mut RunState, bps: &[u16]) { advance_until(state, 0xFFFF, bps) }

/// C11 (immediate return): `continue` k times on a one-instruction loop with a breakpoint on it: every `continue`
/// executes the marked instruction exactly once (the breakpoint fires EVERY time control comes back, not every other time)
#[test]
fn verif_native_breakpoint_rearm() {
    let name = "verif_native_breakpoint_rearm";
    let mut evaluated = 0u64;
    for k in 1..=6usize {
        evaluated += 1;
        let script = "continue; ".repeat(k) + "exit";
        let s2 = script.clone();
        let r = with_timeout(20, move || verif_catch(move || {
            let _ = verif_catch(|| crate::features::init("stack".parse().unwrap()));
            crate::output::Output::set_minimal(true);
            let mut e = build(P6, Some(&s2)); e.run();
            let mut reference = build(P6, None).state;
            for _ in 0..k { continue_ref(&mut reference, &[0x3001]); }
            (e.state, reference)
        }));
        let fail = |d: String| { verif_out(&format!("VERIF-COUNTEREXAMPLE name={} input=script {:?} detail={}", name, script, d)); std::process::exit(1); };
        match r { None => fail("session does not terminate".to_string()), Some(Err(m)) => fail(format!("panic: {}", m)),
            Some(Ok((st, reference))) => if let Some(d) = same_state(&st, &reference) { fail(format!("paused machine differs from the reference: {}", d)); } }
    }
    verif_out(&format!("VERIF-NATIVE name={} evaluated={} distinct={}", name, evaluated, evaluated));
}

/// C11: a program whose loop revisits a `.break` (plus a doubled `.break` in front of HALT) x every sequence of <= 4 commands
/// over { continue, step into 1, break add x3003, break remove x3002, break remove x3003 } followed by `exit`: the machine
/// always pauses BEFORE the marked instruction, resuming executes it once, removed breakpoints never pause
#[test]
fn verif_native_breakpoints() {
    let name = "verif_native_breakpoints";
    let cmds = ["continue", "step into 1", "break add x3003", "break remove x3002", "break remove x3003"];
    let n = cmds.len();
    let mut evaluated = 0u64;
    for len in 1..=4usize {
        for code in 0..n.pow(len as u32) {
            let mut c = code;
            let mut seq = Vec::new();
            for _ in 0..len { seq.push(c % n); c /= n; }
            let script: String = seq.iter().map(|i| format!("{}; ", cmds[*i])).collect::<String>() + "exit";
            evaluated += 1;
            let s2 = script.clone();
            let seq2 = seq.clone();
            let r = with_timeout(20, move || verif_catch(move || {
                init();
                let mut e = build(P5, Some(&s2)); e.run();
                let mut reference = build(P5, None).state;
                // .break marks the next statement: `loop` is statement 2 (x3002), the doubled one marks HALT (x3005)
                let mut bps: Vec<u16> = vec![0x3002, 0x3005];
                for i in &seq2 {
                    match i {
                        0 => continue_ref(&mut reference, &bps),
                        1 => { advance(&mut reference, 1); }
                        2 => { if !bps.contains(&0x3003) { bps.push(0x3003); } }
                        3 => bps.retain(|a| *a != 0x3002),
                        _ => bps.retain(|a| *a != 0x3003),
                    }
                }
                (e.state, reference)
            }));
            let fail = |d: String| { verif_out(&format!("VERIF-COUNTEREXAMPLE name={} input=script {:?} detail={}", name, script, d)); std::process::exit(1); };
            match r { None => fail("session does not terminate".to_string()), Some(Err(m)) => fail(format!("panic: {}", m)),
                Some(Ok((st, reference))) => if let Some(d) = same_state(&st, &reference) { fail(format!("paused machine differs from the reference: {}", d)); } }
        }
    }
    verif_out(&format!("VERIF-NATIVE name={} evaluated={} distinct={}", name, evaluated, evaluated));
}

const P7: &str = ".orig x3000\nstart add r0,r0,#1\n.break\nmid add r0,r0,#2\nhalt\nlast .fill x0\n";
const P8: &str = ".orig xFDFC\na add r0,r0,#1\nb halt\nc .fill #1\nd .fill #2\ne .fill #3\nfar .fill #4\n";
const P9: &str = "ld r1, t\njmp r1\nt .fill x2000\n";

/// C13: 3 programs (default origin with a .break; origin xFDFC whose labels straddle xFE00; a PC that has strayed to x2000)
/// x every location spelling below (absolute addresses at the boundaries, each label with offsets 0, +-1, +-5, +32767,
/// -32768, PC offsets likewise, offsets that do not fit 16 bits) x { move LOC 7, goto LOC, break add LOC, break remove LOC,
/// print LOC, assembly LOC }: compared with the machine and breakpoint list just before the command, the command changes
/// exactly the named word / the PC / the list entry when the MATHEMATICAL address lies in [origin, xFE00) and nothing at all
/// otherwise. Plus `move rN V` for all 8 registers x 4 values, `registers`, `break list`.
#[test]
fn verif_native_confined_writes() {
    let name = "verif_native_confined_writes";
    let mut evaluated = 0u64;
    let mut accepted = 0u64;
    // (program, prefix, origin, pc after prefix, labels)
    let p7l: Vec<(&str, i64)> = vec![("start", 0x3000), ("mid", 0x3001), ("last", 0x3003)];
    let p8l: Vec<(&str, i64)> = vec![("a", 0xFDFC), ("d", 0xFDFF), ("e", 0xFE00), ("far", 0xFE01)];
    let p9l: Vec<(&str, i64)> = vec![("t", 0x3002)];
    let cases: Vec<(&'static str, &str, i64, i64, Vec<(&str, i64)>)> = vec![
        (P7, "", 0x3000, 0x3000, p7l.clone()), (P7, "step into 1; ", 0x3000, 0x3001, p7l),
        (P8, "", 0xFDFC, 0xFDFC, p8l), (P9, "step into 2; ", 0x3000, 0x2000, p9l)];
    let offs: [i64; 8] = [0, 1, -1, 5, -5, 32767, -32768, 3];
    for (prog, prefix, orig, pc, labels) in cases {
        // (spelling, mathematical address or None when the spelling itself must be refused)
        let mut locs: Vec<(String, Option<i64>)> = Vec::new();
        for a in [0i64, 1, 0x2000, 0x2FFF, 0x3000, 0x3001, 0x3003, 0x3004, 0x7FFF, 0x8000, 0xFDFB, 0xFDFC, 0xFDFF, 0xFE00, 0xFE01, 0xFFFF] { locs.push((format!("x{:04X}", a), Some(a))); }
        locs.push(("x10000".into(), None));
        for (l, a) in &labels { for o in offs {
            locs.push((if o == 0 { l.to_string() } else if o > 0 { format!("{}+{}", l, o) } else { format!("{}{}", l, o) }, Some(a + o)));
        } locs.push((format!("{}+65536", l), None)); locs.push((format!("{}-40000", l), None)); }
        for o in offs { locs.push((if o == 0 { "^".to_string() } else { format!("^{}", o) }, Some(pc + o))); }
        locs.push(("^40000".into(), None)); locs.push(("^-32769".into(), None)); locs.push(("nosuchlabel".into(), None));
        let base_script = format!("{}exit", prefix);
        let base = with_timeout(20, move || verif_catch(move || { init(); let mut e = build(prog, Some(&base_script)); e.run();
            let b = crate::debugger::verif_native_debugger_probe::verif_breakpoints(e.debugger.as_ref().unwrap()); (e.state, b) }));
        let (s0, b0) = match base { Some(Ok(x)) => x, _ => { verif_out(&format!("VERIF-COUNTEREXAMPLE name={} input=program {:?} script {:?} detail=session failed", name, prog, prefix)); std::process::exit(1); } };
        let mut commands: Vec<(String, u8, Option<i64>)> = Vec::new();   // kind: 0 move mem, 1 goto, 2 break add, 3 break remove, 4 no effect, 5.. move reg
        for (sp, addr) in &locs {
            commands.push((format!("move {} 7", sp), 0, *addr)); commands.push((format!("goto {}", sp), 1, *addr));
            commands.push((format!("break add {}", sp), 2, *addr)); commands.push((format!("break remove {}", sp), 3, *addr));
            commands.push((format!("print {}", sp), 4, None)); commands.push((format!("assembly {}", sp), 4, None));
        }
        for r in 0..8i64 { for v in ["0", "xFFFF", "x8000", "#-1"] { commands.push((format!("move r{} {}", r, v), 5, Some(r * 0x10000 + match v { "0" => 0, "x8000" => 0x8000, _ => 0xFFFF }))); } }
        commands.push(("registers".into(), 4, None)); commands.push(("break list".into(), 4, None));
        for (cmd, kind, addr) in commands {
            evaluated += 1;
            let script = format!("{}{}; exit", prefix, cmd);
            let s2 = script.clone();
            let r = with_timeout(20, move || verif_catch(move || { init(); let mut e = build(prog, Some(&s2)); e.run();
                let b = crate::debugger::verif_native_debugger_probe::verif_breakpoints(e.debugger.as_ref().unwrap()); (e.state, b) }));
            let fail = |d: String| { verif_out(&format!("VERIF-COUNTEREXAMPLE name={} input=program {:?} script {:?} detail={}", name, prog, script, d)); std::process::exit(1); };
            let (s1, b1) = match r { None => { fail("session does not terminate".to_string()); unreachable!() }, Some(Err(m)) => { fail(format!("panic: {}", m)); unreachable!() }, Some(Ok(x)) => x };
            let valid = |a: Option<i64>| a.map_or(false, |a| a >= orig && a < 0xFE00);
            let mut want = s0.clone();
            let mut want_b = b0.clone();
            match kind {
                0 => if valid(addr) { want.mem[addr.unwrap() as usize] = 7; accepted += 1; },
                1 => if valid(addr) { want.pc = addr.unwrap() as u16; accepted += 1; },
                2 => if valid(addr) { let a = addr.unwrap() as u16; if !want_b.contains(&a) { want_b.push(a); want_b.sort(); } accepted += 1; },
                3 => if valid(addr) { let a = addr.unwrap() as u16; want_b.retain(|x| *x != a); accepted += 1; },
                5 => { let x = addr.unwrap(); want.reg[(x >> 16) as usize] = (x & 0xFFFF) as u16; accepted += 1; },
                _ => (),
            }
            let what = if kind < 4 && !valid(addr) { format!("the location is outside [x{:04X}, xFE00) or malformed (mathematical address {:?}), yet ", orig, addr) } else { String::new() };
            if let Some(d) = same_state(&s1, &want) { fail(format!("{}machine after the command differs from the expected one: {}", what, d)); }
            if b1 != want_b { fail(format!("{}breakpoint list is {:04x?}, expected {:04x?}", what, b1, want_b)); }
        }
    }
    assert!(accepted > 0 && accepted < evaluated, "degenerate enumeration");
    verif_out(&format!("VERIF-NATIVE name={} evaluated={} distinct={}", name, evaluated, accepted));
}

// ---- a reference DEBUGGER (control oracle of DESIGN Appendix B, executable): commands act on a machine + breakpoint set ----
#[derive(Clone, Copy, Debug, PartialEq)]
enum RefCmd { Step, StepInto(u16), StepOut, Continue, BreakAdd(u16), BreakRemove(u16), Goto(u16), Reset, MoveReg(u16, u16) }
struct RefDbg { m: RunState, initial: RunState, bps: Vec<u16>, stack: bool }
fn ref_halt(w: u16) -> bool { w >> 12 == 0xF && w & 0xFF == 0x25 }
fn ref_call(w: u16) -> bool { w >> 12 == 0x4 || (w >> 12 == 0xD && (w >> 10) & 3 == 3) }
fn ref_return(w: u16) -> bool { (w >> 12 == 0xC && (w >> 6) & 7 == 7) || (w >> 12 == 0xD && (w >> 10) & 3 == 2) }
impl RefDbg {
    fn user(&self, a: u16) -> bool { a >= self.m.orig && a < 0xFE00 }
    /// resume: instructions execute one by one; before each but the first, a breakpoint at the PC pauses; HALT is never
    /// executed; a PC outside user space pauses; `done(before_pc, word)` says whether the instruction about to run is the last
    fn resume(&mut self, mode: RefCmd) {
        if ref_halt(self.m.mem[self.m.pc as usize]) { return; }          // refused while sitting on HALT
        let return_addr = self.m.pc.wrapping_add(1);
        // `step`: the next instruction, or the WHOLE subroutine when it is a call: the stepped call instruction may run again in
        // deeper activations (recursion through the same call site) — each run opens an invocation, each transfer of control
        // (RET, RETS, JMP through any register, a call) to the following address closes one; the step ends with the last one
        let call_addr = self.m.pc;
        let over_call = mode == RefCmd::Step && ref_call(self.m.mem[self.m.pc as usize]);
        let mut open = 0u64;
        let mut by_jump = false;
        let mut left = if let RefCmd::StepInto(k) = mode { k.max(1) as u32 } else { 0 };
        let mut first = true;
        loop {
            let pc = self.m.pc;
            if !self.user(pc) { return; }
            let w = self.m.mem[pc as usize];
            if !first && self.bps.contains(&pc) { return; }
            if ref_halt(w) { return; }
            if over_call && !first && pc == return_addr && by_jump { open = open.saturating_sub(1); if open == 0 { return; } }
            if over_call && pc == call_addr && ref_call(w) { open += 1; }
            by_jump = w >> 12 == 0xC || ref_call(w) || ref_return(w);
            first = false;
            self.m.pc = pc.wrapping_add(1);
            self.m.execute(w);
            match mode {
                RefCmd::StepInto(_) => { left -= 1; if left == 0 { return; } }
                RefCmd::StepOut => if ref_return(w) { return; },
                RefCmd::Step => if !over_call { return; },
                _ => (),
            }
        }
    }
    fn apply(&mut self, c: RefCmd) {
        match c {
            RefCmd::Step | RefCmd::StepInto(_) | RefCmd::Continue => self.resume(c),
            RefCmd::StepOut => if self.stack { self.resume(c) },
            RefCmd::BreakAdd(a) => if self.user(a) && !self.bps.contains(&a) { self.bps.push(a); self.bps.sort(); },
            RefCmd::BreakRemove(a) => if self.user(a) { self.bps.retain(|x| *x != a); },
            RefCmd::Goto(a) => if self.user(a) { self.m.pc = a; },
            RefCmd::Reset => self.m = self.initial.clone(),
            RefCmd::MoveReg(r, v) => self.m.reg[r as usize] = v,
        }
    }
}
fn ref_cmd_text(c: RefCmd) -> String {
    match c { RefCmd::Step => "step".into(), RefCmd::StepInto(k) => format!("step into {}", k), RefCmd::StepOut => "step out".into(), RefCmd::Continue => "continue".into(),
        RefCmd::BreakAdd(a) => format!("break add x{:04X}", a), RefCmd::BreakRemove(a) => format!("break remove x{:04X}", a), RefCmd::Goto(a) => format!("goto x{:04X}", a),
        RefCmd::Reset => "reset".into(), RefCmd::MoveReg(r, v) => format!("move r{} x{:04X}", r, v) }
}

/// nested CALL/RETS, a JSR/RET leaf, a counted loop, a `.break` inside the loop, HALT in the middle (subroutines after it)
const Q1: &str = ".orig x3000\nand r0,r0,#0\nadd r0,r0,#2\nloop call outer\n.break\nadd r0,r0,#-1\nbrp loop\njsr leaf\nhalt\nouter add r1,r1,#1\ncall inner\nadd r1,r1,#1\nrets\ninner add r2,r2,#1\nrets\nleaf add r3,r3,#1\nret\n";
/// the same shape in the JSR/RET convention only (usable without the stack feature), recursion through a counter, HALT last
const Q2: &str = "and r0,r0,#0\nadd r0,r0,#2\nst r7, save\nloop jsr sub\nadd r0,r0,#-1\nbrp loop\n.break\n.break\nld r7, save\nbrnzp end\nsub add r1,r1,#1\nadd r4,r7,#0\nadd r1,r1,#0\nbrz skip\nskip add r7,r4,#0\nret\nsave .fill x0\nend halt\n";

/// recursion in both conventions: the recursive call site is reached again, one activation deeper, before the stepped-over call returns
const Q3: &str = ".orig x3000\nld r6, sp\nand r0, r0, #0\nadd r0, r0, #3\njsr f\nadd r5, r5, #1\nhalt\nf add r6, r6, #-1\nstr r7, r6, #0\nadd r0, r0, #-1\nbrnz fdone\njsr f\nadd r1, r1, #1\nfdone ldr r7, r6, #0\nadd r6, r6, #1\nret\nsp .fill xf000\n";
const Q4: &str = ".orig x3000\nand r0, r0, #0\nadd r0, r0, #3\ncall f\nhalt\nf push r0\nadd r1, r1, r0\nadd r0, r0, #-1\nbrnz fe\ncall f\nfe pop r0\nrets\n";

/// callees that come back to the following address without balancing their own calls and returns: return through another
/// register, a JSR used only to read the PC, a non-local exit from a nested callee; and a recursive routine whose recursive
/// call is conditional (the following address is also reached by a branch, one activation deeper)
const Q5: &str = ".orig x3000\nand r0,r0,#0\njsr sub\nadd r0,r0,#1\njsr idiom\nadd r0,r0,#2\njsr f\nadd r0,r0,#4\nhalt\nsub add r6,r7,#0\nadd r1,r1,#1\njmp r6\nidiom st r7, save\njsr here\nhere add r1,r7,#0\nld r7, save\nret\nf st r7, save\njsr g\nld r7, save\nret\ng ld r7, save\nret\nsave .fill x0\n";
const Q6: &str = ".orig x3000\nld r6, sp\nand r0,r0,#0\nadd r0,r0,#3\njsr f\nhalt\nf add r6,r6,#-1\nstr r7,r6,#0\nadd r1,r1,#1\nadd r0,r0,#-1\nbrz skip\njsr f\nskip add r2,r2,#1\nldr r7,r6,#0\nadd r6,r6,#1\nret\nsp .fill xf000\n";

/// C10 / C11 / C16 over whole sessions against the reference debugger: 6 programs (Q1 with `-f stack`, Q2 without, Q3 / Q4
/// recursive in the JSR/RET and the CALL/RETS convention, Q5 / Q6 callees with unbalanced calls and returns) x EVERY
/// sequence of <= 4 commands over 11 commands { step, step into 1, step into 3, step into 0, step out, continue, break add A,
/// break remove A, break remove B (the .break), goto C, reset } followed by `exit`: the paused machine AND the breakpoint list
/// equal the reference's; every session terminates
#[test]
fn verif_native_session_reference() {
    let name = "verif_native_session_reference";
    let mut evaluated = 0u64;
    // (program, -f stack, A = address for break add/remove, B = a second address to remove (the .break where there is one), C = goto target)
    for (prog, stack, a, b, c) in [(Q1, true, 0x3008u16, 0x3003u16, 0x3005u16), (Q2, false, 0x300Bu16, 0x3006u16, 0x3003u16),
            (Q3, false, 0x300Au16, 0x300Bu16, 0x3003u16), (Q4, true, 0x3008u16, 0x3009u16, 0x3002u16),
            (Q5, false, 0x300Au16, 0x3011u16, 0x3003u16), (Q6, false, 0x300Au16, 0x300Bu16, 0x3001u16)] {
        let cmds = [RefCmd::Step, RefCmd::StepInto(1), RefCmd::StepInto(3), RefCmd::StepInto(0), RefCmd::StepOut, RefCmd::Continue,
            RefCmd::BreakAdd(a), RefCmd::BreakRemove(a), RefCmd::BreakRemove(b), RefCmd::Goto(c), RefCmd::Reset];
        let n = cmds.len();
        for len in 1..=(if verif_deep() { 5usize } else { 4 }) {
            for code in 0..n.pow(len as u32) {
                let mut x = code;
                let mut seq = Vec::new();
                for _ in 0..len { seq.push(cmds[x % n]); x /= n; }
                let script: String = seq.iter().map(|c| ref_cmd_text(*c) + "; ").collect::<String>() + "exit";
                evaluated += 1;
                let s2 = script.clone();
                let seq2 = seq.clone();
                let r = with_timeout(20, move || verif_catch(move || {
                    let _ = verif_catch(|| crate::features::init(if stack { "stack".parse().unwrap() } else { Default::default() }));
                    crate::output::Output::set_minimal(true);
                    let mut e = build(prog, Some(&s2)); e.run();
                    let got_b = crate::debugger::verif_native_debugger_probe::verif_breakpoints(e.debugger.as_ref().unwrap());
                    let fresh = build(prog, Some("exit"));
                    let b0 = crate::debugger::verif_native_debugger_probe::verif_breakpoints(fresh.debugger.as_ref().unwrap());
                    let mut reference = RefDbg { m: fresh.state.clone(), initial: fresh.state, bps: b0, stack };
                    for c in &seq2 { reference.apply(*c); }
                    (e.state, got_b, reference.m, reference.bps)
                }));
                let fail = |d: String| { verif_out(&format!("VERIF-COUNTEREXAMPLE name={} input=program {:?} ({}) script {:?} detail={}", name, prog, if stack { "-f stack" } else { "no flag" }, script, d)); std::process::exit(1); };
                match r {
                    None => fail("session does not terminate".to_string()),
                    Some(Err(m)) => fail(format!("panic: {}", m)),
                    Some(Ok((st, bl, rm, rb))) => {
                        if let Some(d) = same_state(&st, &rm) { fail(format!("paused machine differs from the reference debugger's: {}", d)); }
                        if bl != rb { fail(format!("breakpoint list {:04x?}, reference {:04x?}", bl, rb)); }
                    }
                }
            }
        }
    }
    verif_out(&format!("VERIF-NATIVE name={} evaluated={} distinct={}", name, evaluated, evaluated));
}

const P10: &str = ".orig x3000\nfirst add r1,r1,#1\nadd r1,r1,#1\nadd r1,r1,#1\nadd r1,r1,#1\nadd r1,r1,#1\nhalt\ndata .fill x9234\nother .fill x5678\nptr .fill x3007\nspare .fill x0\n";
fn ref_flag(v: u16) -> RunFlag { if v == 0 { RunFlag::Z } else if v & 0x8000 != 0 { RunFlag::N } else { RunFlag::P } }

/// C15 against a semantics written here from the ISA: 5 PC situations (origin; after two steps; x30F0, beyond the labels; x2FFE and
/// x2F10, strayed BELOW the origin through `eval jmp`) x 28 well-formed instructions (operate forms at the immediate
/// limits, LD/LDI/LEA/ST/STI on labels before and after the PC, LDR/STR with offsets, JMP, RET) x 18 refused texts (BR*, RTI, HALT,
/// unknown / halting trap vectors, missing / surplus / wrong-kind operands, directives): the WHOLE machine after
/// `eval T; move spare x0BAD; exit` is the expected one — a label is its address at every PC, the PC moves only for jumps, a
/// refused text changes nothing, the session goes on
#[test]
fn verif_native_eval_reference() {
    let name = "verif_native_eval_reference";
    let mut evaluated = 0u64;
    let setup = "move r1 x8001; move r2 x0005; move r6 x3007; move r3 x7FFF; ";
    let situations: [(&str, u16); 5] = [("", 0x3000), ("step into 2; ", 0x3002), ("goto x30F0; ", 0x30F0), ("move r0 x2FFE; eval jmp r0; ", 0x2FFE), ("move r0 x2F10; eval jmp r0; ", 0x2F10)];
    type Eff = Box<dyn Fn(&mut RunState) + Send>;
    let setr = |r: usize, f: Box<dyn Fn(&RunState) -> u16 + Send>| -> Eff { Box::new(move |s: &mut RunState| { let v = f(s); s.reg[r] = v; s.flag = ref_flag(v); }) };
    let nothing = || -> Eff { Box::new(|_s: &mut RunState| ()) };
    let mk = move || -> Vec<(&'static str, Eff)> { vec![
        ("add r4, r1, #15", setr(4, Box::new(|s| s.reg[1].wrapping_add(15)))),
        ("add r4, r1, #-16", setr(4, Box::new(|s| s.reg[1].wrapping_sub(16)))),
        ("add r4, r1, r3", setr(4, Box::new(|s| s.reg[1].wrapping_add(s.reg[3])))),
        ("ADD R1, R1, R1", setr(1, Box::new(|s| s.reg[1].wrapping_add(s.reg[1])))),
        ("and r4, r1, xFFF0", setr(4, Box::new(|s| s.reg[1] & 0xFFF0))),
        ("and r4, r1, #0", setr(4, Box::new(|_s| 0))),
        ("and r5, r3, r1", setr(5, Box::new(|s| s.reg[3] & s.reg[1]))),
        ("not r5, r1", setr(5, Box::new(|s| !s.reg[1]))),
        ("ld r4, data", setr(4, Box::new(|s| s.mem[0x3006]))),
        ("ld r4, first", setr(4, Box::new(|s| s.mem[0x3000]))),
        ("ld r4, spare", setr(4, Box::new(|s| s.mem[0x3009]))),
        ("ldi r4, ptr", setr(4, Box::new(|s| s.mem[s.mem[0x3008] as usize]))),
        ("lea r5, other", setr(5, Box::new(|_s| 0x3007))),
        ("lea r5, first", setr(5, Box::new(|_s| 0x3000))),
        ("st r1, other", Box::new(|s: &mut RunState| { s.mem[0x3007] = s.reg[1]; })),
        ("st r3, first", Box::new(|s: &mut RunState| { s.mem[0x3000] = s.reg[3]; })),
        ("sti r2, ptr", Box::new(|s: &mut RunState| { let a = s.mem[0x3008] as usize; s.mem[a] = s.reg[2]; })),
        ("ldr r5, r6, #0", setr(5, Box::new(|s| s.mem[s.reg[6] as usize]))),
        ("ldr r5, r6, #-1", setr(5, Box::new(|s| s.mem[s.reg[6].wrapping_sub(1) as usize]))),
        ("ldr r5, r6, #2", setr(5, Box::new(|s| s.mem[s.reg[6].wrapping_add(2) as usize]))),
        ("ldr r5, r6, #-32", setr(5, Box::new(|s| s.mem[s.reg[6].wrapping_sub(32) as usize]))),
        ("str r1, r6, #1", Box::new(|s: &mut RunState| { let a = s.reg[6].wrapping_add(1) as usize; s.mem[a] = s.reg[1]; })),
        ("str r2, r6, #-7", Box::new(|s: &mut RunState| { let a = s.reg[6].wrapping_sub(7) as usize; s.mem[a] = s.reg[2]; })),
        ("str r6, r6, #31", Box::new(|s: &mut RunState| { let a = s.reg[6].wrapping_add(31) as usize; s.mem[a] = s.reg[6]; })),
        ("jmp r6", Box::new(|s: &mut RunState| { s.pc = s.reg[6]; })),
        ("JMP R3", Box::new(|s: &mut RunState| { s.pc = s.reg[3]; })),
        ("ret", Box::new(|s: &mut RunState| { s.pc = s.reg[7]; })),
        // a jump whose target happens to be the address right after the PC is still a jump (r5 is set to PC+1 per situation)
        ("jmp r5", Box::new(|s: &mut RunState| { s.pc = s.reg[5]; })),
        // refused: no effect
        ("br data", nothing()), ("brnzp first", nothing()), ("brz #1", nothing()), ("rti", nothing()), ("halt", nothing()), ("trap x25", nothing()),
        ("trap x30", nothing()), ("trap x00", nothing()), ("add r0, r0", nothing()), ("add r0, r0, #1 r2", nothing()), ("add r0, r0, #16", nothing()),
        ("ld r0, nolabel", nothing()), ("ld r0, r1", nothing()), ("add r0, r0, data", nothing()), ("ldr r0, r1, #32", nothing()), (".fill x1", nothing()),
        ("not r1", nothing()), ("jmp data", nothing()),
    ] };
    let count = mk().len();
    for (prefix, pc) in situations {
        for idx in 0..count {
            evaluated += 1;
            let text = mk()[idx].0;
            let setup = format!("{}move r5 x{:04X}; ", setup, pc.wrapping_add(1));
            let script_a = format!("{}{}exit", setup, prefix);
            let script_b = format!("{}{}eval {}; move spare x0BAD; exit", setup, prefix, text);
            let sb = script_b.clone();
            let r = with_timeout(20, move || verif_catch(move || {
                init();
                let mut before = build(P10, Some(&script_a)); before.run();
                let mut after = build(P10, Some(&sb)); after.run();
                let mut want = before.state.clone();
                if want.pc != pc { return Some(format!("test setup: PC is {:04x}, expected {:04x}", want.pc, pc)); }
                let effects = mk();
                (effects[idx].1)(&mut want);
                want.mem[0x3009] = 0x0BAD;
                same_state(&after.state, &want)
            }));
            let fail = |d: String| { verif_out(&format!("VERIF-COUNTEREXAMPLE name={} input=script {:?} (PC {:04x}) detail=machine (left) differs from the ISA's (right): {}", name, script_b, pc, d)); std::process::exit(1); };
            match r { None => fail("session does not terminate".to_string()), Some(Err(m)) => fail(format!("panic: {}", m)), Some(Ok(Some(d))) => fail(d), Some(Ok(None)) => () }
        }
    }
    verif_out(&format!("VERIF-NATIVE name={} evaluated={} distinct={}", name, evaluated, evaluated));
}
