// BOUNDED native enumeration (engine N) — child module of src/debugger/command/reader/argument.rs  (C14)
use super::*;
include!("common.inc");

/// every `--command` string of <= 7 characters over { a, b, space, ';', newline, é }: successive reads return exactly the
/// segments between delimiters (a trailing delimiter does not add an empty command), `;` and newline are interchangeable
#[test]
fn verif_native_argument_split() {
    let name = "verif_native_argument_split";
    let inputs = verif_strings(&['a', 'b', ' ', ';', '\n', 'é'], if verif_deep() { 9 } else { 7 });
    let mut evaluated = 0u64;
    for s in &inputs {
        evaluated += 1;
        let mut want: Vec<String> = s.split(|c| c == ';' || c == '\n').map(|x| x.to_string()).collect();
        if s.is_empty() || s.ends_with(';') || s.ends_with('\n') { want.pop(); }
        let r = verif_catch(|| {
            let mut arg = Argument::from(s.clone());
            let mut got = Vec::new();
            for _ in 0..(s.len() + 2) { match arg.read() { Some(c) => got.push(c.to_string()), None => break } }
            got
        });
        match r {
            Err(m) => { verif_out(&format!("VERIF-COUNTEREXAMPLE name={} input={:?} detail=panic: {}", name, s, m)); panic!("violation"); }
            Ok(got) => if got != want {
                verif_out(&format!("VERIF-COUNTEREXAMPLE name={} input={:?} detail=reads {:?}, expected segments {:?}", name, s, got, want));
                panic!("violation");
            }
        }
    }
    verif_out(&format!("VERIF-NATIVE name={} evaluated={} distinct={}", name, evaluated, inputs.len()));
}
