// BOUNDED native enumeration (engine N) — child module of src/runtime.rs  (C03 / C06 loader, robust to restructuring)
use super::*;
include!("common.inc");

/// images of 1..=4 words x 4100 origins (every origin in 0..0x1000 step 1 is skipped: a grid of 64 plus all 4096 origins
/// from 0xF000 to 0xFFFF) that FIT below 0x10000: accepted without a panic, words at the origin, HALT sentinel after the last
/// word, zero elsewhere, PC = orig, R0-R6 = 0, R7 = 0xFDFF. (Images that do not fit end in process::exit, which would take
/// the test process down; the rejecting half of the loader is covered by the Verus proof only.)
#[test]
fn verif_native_from_raw() {
    let name = "verif_native_from_raw";
    let mut origins: Vec<u32> = (0..0xF000u32).step_by(0x3C1).collect();
    origins.extend(0xF000u32..=0xFFFF);
    origins.extend([0x2FFF, 0x3000, 0xFDFE, 0xFDFF, 0xFE00]);
    let mut evaluated = 0u64;
    for &orig in &origins {
        for n in 1..=4usize {
            if orig as usize + n > 0x10000 { continue; }
            evaluated += 1;
            let mut raw = vec![orig as u16];
            for i in 1..n { raw.push(0x1000 + i as u16); }
            let r = verif_catch(|| RunEnvironment::from_raw(&raw).map(|e| e.state).map_err(|_| ()));
            let fail = |d: String| { verif_out(&format!("VERIF-COUNTEREXAMPLE name={} input=image {:04x?} detail={}", name, raw, d)); panic!("violation"); };
            match r {
                Err(m) => fail(format!("panic: {}", m)),
                Ok(Err(())) => fail("rejected although it fits".to_string()),
                Ok(Ok(st)) => {
                    let o = orig as usize;
                    if st.pc != orig as u16 || st.orig != orig as u16 { fail(format!("pc {:04x} orig {:04x}", st.pc, st.orig)); }
                    if st.reg != [0, 0, 0, 0, 0, 0, 0, 0xFDFF] { fail(format!("registers {:04x?}", st.reg)); }
                    if !matches!(st.flag, RunFlag::Uninit) { fail("condition code set".to_string()); }
                    for a in 0..0x10000usize {
                        let want = if a >= o && a < o + n - 1 { raw[a - o + 1] } else if a == o + n - 1 { 0xF025 } else { 0 };
                        if st.mem[a] != want { fail(format!("memory[{:04x}] = {:04x}, expected {:04x}", a, st.mem[a], want)); }
                    }
                }
            }
        }
    }
    verif_out(&format!("VERIF-NATIVE name={} evaluated={} distinct={}", name, evaluated, evaluated));
}
