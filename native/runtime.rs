// BOUNDED native enumeration (engine N) — child module of src/runtime.rs  (C03 / C06 loader, robust to restructuring)
use super::*;
include!("common.inc");

/// images of 1..=4 words x 4100 origins (every origin in 0..0x1000 step 1 is skipped: a grid of 64 plus all 4096 origins
/// from 0xF000 to 0xFFFF) that FIT below 0x10000: accepted without a panic, words at the origin, HALT sentinel after the last
/// word, zero elsewhere, PC = orig, R0-R6 = 0, R7 = 0xFDFF. (Images that do not fit end in process::exit, which would take
/// the test process down; the rejecting half of the loader is covered by the Verus proof only.)
#[test]
fn verif_native_from_raw() {
    let name = "verif_native_from_raw";
    let mut origins: Vec<u32> = (0..0xF000u32).step_by(0x3C1).collect();
    origins.extend(0xF000u32..=0xFFFF);
    origins.extend([0x2FFF, 0x3000, 0xFDFE, 0xFDFF, 0xFE00]);
    let mut evaluated = 0u64;
    for &orig in &origins {
        for n in 1..=4usize {
            if orig as usize + n > 0x10000 { continue; }
            evaluated += 1;
            let mut raw = vec![orig as u16];
            for i in 1..n { raw.push(0x1000 + i as u16); }
            let r = verif_catch(|| RunEnvironment::from_raw(&raw).map(|e| e.state).map_err(|_| ()));
            let fail = |d: String| { verif_out(&format!("VERIF-COUNTEREXAMPLE name={} input=image {:04x?} detail={}", name, raw, d)); panic!("violation"); };
            match r {
                Err(m) => fail(format!("panic: {}", m)),
                Ok(Err(())) => fail("rejected although it fits".to_string()),
                Ok(Ok(st)) => {
                    let o = orig as usize;
                    if st.pc != orig as u16 || st.orig != orig as u16 { fail(format!("pc {:04x} orig {:04x}", st.pc, st.orig)); }
                    if st.reg != [0, 0, 0, 0, 0, 0, 0, 0xFDFF] { fail(format!("registers {:04x?}", st.reg)); }
                    if !matches!(st.flag, RunFlag::Uninit) { fail("condition code set".to_string()); }
                    for a in 0..0x10000usize {
                        let want = if a >= o && a < o + n - 1 { raw[a - o + 1] } else if a == o + n - 1 { 0xF025 } else { 0 };
                        if st.mem[a] != want { fail(format!("memory[{:04x}] = {:04x}, expected {:04x}", a, st.mem[a], want)); }
                    }
                }
            }
        }
    }
    verif_out(&format!("VERIF-NATIVE name={} evaluated={} distinct={}", name, evaluated, evaluated));
}

/// the four `unsafe` accessors whose bodies the Verus proof trusts (rule R8): for all 8 registers and all 65536 addresses,
/// reg/mem read exactly that cell and reg_mut/mem_mut write exactly that cell (everything else unchanged)
#[test]
fn verif_native_accessors() {
    let name = "verif_native_accessors";
    let mut st = RunEnvironment::from_raw(&[0x3000, 0x1234]).map_err(|_| ()).unwrap().state;
    for i in 0..8 { st.reg[i] = 0x100 + i as u16; }
    for a in 0..MEMORY_MAX { st.mem[a] = (a as u16).wrapping_mul(31).wrapping_add(7); }
    let mut evaluated = 0u64;
    let fail = |d: String| { verif_out(&format!("VERIF-COUNTEREXAMPLE name={} input=- detail={}", name, d)); panic!("violation"); };
    for i in 0..8u16 {
        evaluated += 1;
        if st.reg(i) != st.reg[i as usize] { fail(format!("reg({}) reads {:04x}", i, st.reg(i))); }
        let before = st.clone();
        *st.reg_mut(i) = 0xBEEF;
        for j in 0..8 { let want = if j == i as usize { 0xBEEF } else { before.reg[j] }; if st.reg[j] != want { fail(format!("reg_mut({}) changed r{} to {:04x}", i, j, st.reg[j])); } }
        if st.pc != before.pc || st.mem[..] != before.mem[..] { fail(format!("reg_mut({}) changed pc or memory", i)); }
        st = before;
    }
    for a in 0..=0xFFFFu16 {
        evaluated += 1;
        if st.mem(a) != st.mem[a as usize] { fail(format!("mem({:04x}) reads {:04x}", a, st.mem(a))); }
        let old = st.mem[a as usize];
        *st.mem_mut(a) = !old;
        if st.mem[a as usize] != !old { fail(format!("mem_mut({:04x}) did not write", a)); }
        // neighbours untouched (full comparison every 4096 addresses)
        let lo = (a as usize).saturating_sub(1); let hi = (a as usize + 1).min(0xFFFF);
        if lo != a as usize && st.mem[lo] != (lo as u16).wrapping_mul(31).wrapping_add(7) { fail(format!("mem_mut({:04x}) changed {:04x}", a, lo)); }
        if hi != a as usize && st.mem[hi] != (hi as u16).wrapping_mul(31).wrapping_add(7) { fail(format!("mem_mut({:04x}) changed {:04x}", a, hi)); }
        if a % 4096 == 0 { for b in 0..MEMORY_MAX { if b != a as usize && st.mem[b] != (b as u16).wrapping_mul(31).wrapping_add(7) { fail(format!("mem_mut({:04x}) changed {:04x}", a, b)); } } }
        *st.mem_mut(a) = old;
    }
    verif_out(&format!("VERIF-NATIVE name={} evaluated={} distinct={}", name, evaluated, evaluated));
}

#[allow(dead_code)]
mod step_reference {
    include!("../kani/harness/ref_sext.rs");
    include!("../kani/harness/ref_step.rs");
}

/// C02 differential enumeration: ALL 65536 instruction words (minus RTI and the traps that do console I/O or exit the
/// process) x 12 machine states (registers at 0, 1, x7FFF, x8000, xFFFF and pointers into low / user / high memory, PC at the
/// origin, xFDFF and x0000, every condition code incl. none), with the stack feature on: the real RunState::execute and the
/// executable reference step_ref (proved equal to the ISA oracle step_spec in Verus) leave identical registers, PC, CC and
/// memory. A failure is a concrete (state, instruction) counterexample for C02.
#[test]
fn verif_native_execute() {
    let name = "verif_native_execute";
    let _ = verif_catch(|| crate::features::init("stack".parse().unwrap()));
    let fill = |a: usize| -> u16 { (a as u16).wrapping_mul(0x9E37).wrapping_add(0x1234) ^ ((a as u16) >> 3) };
    let reg_sets: [[u16; 8]; 4] = [
        [0, 1, 0x7FFF, 0x8000, 0xFFFF, 0x3010, 0xFDFF, 0xFDFF],
        [0xFFFF, 0x8000, 0x0000, 0x2FFF, 0x3000, 0xFE00, 0x0001, 0x0000],
        [0x1234, 0xFFFE, 0x8001, 0x7FFE, 0x00FF, 0xFF00, 0x4000, 0xFFFF],
        [0x3000, 0x3000, 0x3000, 0x3000, 0x3000, 0x3000, 0x3000, 0x3000],
    ];
    let pcs = [0x3001u16, 0xFDFF, 0x0000];
    let flags = [RunFlag::N, RunFlag::Z, RunFlag::P, RunFlag::Uninit];
    let mut evaluated = 0u64;
    let mut base = RunEnvironment::from_raw(&[0x3000, 0]).map_err(|_| ()).unwrap().state;
    for a in 0..MEMORY_MAX { base.mem[a] = fill(a); }
    let mut k = 0usize;
    for regs in reg_sets { for pc in pcs {
        let flag = flags[k % 4]; k += 1;
        let mut real = base.clone();
        real.reg = regs; real.pc = pc; real.flag = flag;
        let mut reference = step_reference::RefState { reg: regs, mem: real.mem.to_vec(), pc, cc: flag as u16 };
        for instr in 0..=0xFFFFu16 {
            let op = instr >> 12;
            if op == 8 { continue; }
            if op == 15 && (instr & 0xFF) != 0x25 { continue; }   // console I/O / process exit: see verif_native_trap_output
            evaluated += 1;
            let before_regs = real.reg; let before_pc = real.pc; let before_flag = real.flag;
            let r = verif_catch(|| { real.execute(instr); });
            let _ = step_reference::step_ref(&mut reference, instr, true);
            let describe = |real: &RunState| format!("instr {:04x} on registers {:04x?} pc {:04x} cc {:03b}", instr, before_regs, before_pc, before_flag as u16);
            if let Err(m) = r { verif_out(&format!("VERIF-COUNTEREXAMPLE name={} input={} detail=panic: {}", name, describe(&real), m)); panic!("violation"); }
            let mut diff = None;
            if real.reg != reference.reg { diff = Some(format!("registers {:04x?}, ISA {:04x?}", real.reg, reference.reg)); }
            else if real.pc != reference.pc { diff = Some(format!("pc {:04x}, ISA {:04x}", real.pc, reference.pc)); }
            else if real.flag as u16 != reference.cc { diff = Some(format!("cc {:03b}, ISA {:03b}", real.flag as u16, reference.cc)); }
            else if real.mem[..] != reference.mem[..] {
                let a = (0..MEMORY_MAX).find(|a| real.mem[*a] != reference.mem[*a]).unwrap();
                diff = Some(format!("memory[{:04x}] {:04x}, ISA {:04x}", a, real.mem[a], reference.mem[a]));
            }
            if let Some(d) = diff { verif_out(&format!("VERIF-COUNTEREXAMPLE name={} input={} detail={}", name, describe(&real), d)); panic!("violation"); }
            // restore both machines (at most one memory word and the registers changed)
            real.reg = regs; real.pc = pc; real.flag = flag;
            reference.reg = regs; reference.pc = pc; reference.cc = flag as u16;
            for a in 0..MEMORY_MAX { if real.mem[a] != fill(a) { real.mem[a] = fill(a); reference.mem[a] = fill(a); } }
        }
    }}
    verif_out(&format!("VERIF-NATIVE name={} evaluated={} distinct={}", name, evaluated, evaluated));
}
