// engine N helper — child module of src/debugger/mod.rs: read-only access to private debugger state for session tests
use super::*;

pub(crate) fn verif_breakpoints(d: &Debugger) -> Vec<u16> { d.breakpoints.iter().map(|b| b.address).collect() }
