// U-BP: src/debugger/breakpoint.rs — sorted, duplicate-free breakpoint list  (property C11)
#![allow(unused)]
#![feature(allocator_api)]
use vstd::prelude::*;
//@include shim.rs

verus! {
//@include common.rs

//@item src/debugger/breakpoint.rs struct Breakpoints derive=
//@item src/debugger/breakpoint.rs struct Breakpoint derive=Clone,Copy

//@include bp_spec.rs

// std behaviour assumed: Vec::retain keeps exactly the elements for which the closure returns true, in order
pub assume_specification<T, A: std::alloc::Allocator, F: FnMut(&T) -> bool> [Vec::<T, A>::retain] (v: &mut Vec<T, A>, f: F)
    requires forall|x: &T| f.requires((x,)),
    ensures forall|keep: spec_fn(T) -> bool| (forall|x: T, b: bool| #[trigger] f.ensures((&x,), b) ==> b == keep(x))
                ==> final(v)@ == #[trigger] old(v)@.filter(keep);

impl Breakpoints {
//@fn src/debugger/breakpoint.rs "impl Breakpoints" new ret=r props=C11
        ensures r.0@.len() == 0, bp_wf(r.0@),
//@end

//@fn src/debugger/breakpoint.rs "impl Breakpoints" len ret=r props=C11
        ensures r == self.0.len(),
//@end
//@fn src/debugger/breakpoint.rs "impl Breakpoints" is_empty ret=r props=C11
        ensures r == (self.0.len() == 0),
//@end

//@fn src/debugger/breakpoint.rs "impl Breakpoints" get ret=r props=C11
//@sub <<<for breakpoint in &self.0 {>>> ==> <<<for breakpoint in it: &self.0
            invariant forall|j: int| 0 <= j < it.index@ ==> self.0[j].address != address,
        {>>>
        ensures
            r is Some <==> bp_has(self.0@, address),
            r matches Some(b) ==> b.address == address && self.0@.contains(b),
//@end

//@fn src/debugger/breakpoint.rs "impl Breakpoints" insert ret=r props=C11
//@sub <<<for (i, other) in self.iter().enumerate() {>>> ==> <<<for i in it: 0..self.0.len()
            invariant_except_break
                index == self.0.len(),
                forall|j: int| 0 <= j < i ==> self.0[j].address < breakpoint.address,
            invariant
                *self == *old(self),
                bp_wf(self.0@),
            ensures
                index <= self.0.len(),
                forall|j: int| 0 <= j < index ==> self.0[j].address < breakpoint.address,
                index < self.0.len() ==> self.0[index as int].address > breakpoint.address,
        {
            let other = &self.0[i];>>>
//@sub <<<self.0.insert(index, breakpoint);>>> ==> <<<self.0.insert(index, breakpoint);
        proof { lemma_insert_bp(old(self).0@, index as int, breakpoint); }>>>
        requires
            bp_wf(old(self).0@),
        ensures
            bp_wf(final(self).0@),
            r == bp_has(old(self).0@, breakpoint.address),
            r ==> final(self).0@ == old(self).0@,
            !r ==> exists|k: int| 0 <= k <= old(self).0@.len() && final(self).0@ == old(self).0@.insert(k, breakpoint),
            forall|a: u16| bp_has(final(self).0@, a) <==> (bp_has(old(self).0@, a) || a == breakpoint.address),
//@end

//@fn src/debugger/breakpoint.rs "impl Breakpoints" remove ret=r props=C11
//@closure retain &Breakpoint bool
//@sub <<<initial_len != self.0.len()>>> ==> <<<proof { lemma_filter_bp(old(self).0@, address); }
        initial_len != self.0.len()>>>
        requires
            bp_wf(old(self).0@),
        ensures
            bp_wf(final(self).0@),
            r == bp_has(old(self).0@, address),
            !bp_has(final(self).0@, address),
            forall|a: u16| a != address ==> (bp_has(final(self).0@, a) <==> bp_has(old(self).0@, a)),
            forall|i: int| 0 <= i < final(self).0@.len() ==> old(self).0@.contains(#[trigger] final(self).0@[i]),
//@end

//@fn src/debugger/breakpoint.rs "impl Breakpoints" with_orig ret=r props=C11
//@sub <<<for breakpoint in &mut self_.0 {
            breakpoint.address += orig;
        }>>> ==> <<<let mut verif_i: usize = 0;
        while verif_i < self_.0.len()
            invariant
                self_.0@.len() == self.0@.len(),
                forall|i: int| 0 <= i < verif_i ==> self_.0@[i].address == self.0@[i].address + orig && self_.0@[i].is_predefined == self.0@[i].is_predefined,
                forall|i: int| verif_i <= i < self.0@.len() ==> self_.0@[i] == self.0@[i],
                forall|i: int| 0 <= i < self.0@.len() ==> self.0@[i].address + orig <= 0xFFFF,
            decreases self_.0.len() - verif_i,
        {
            let breakpoint = &mut self_.0[verif_i]; // R12: `for x in &mut V` as an index loop
            breakpoint.address += orig;
            verif_i += 1;
        }>>>
        requires
            bp_wf(self.0@),
            forall|i: int| 0 <= i < self.0@.len() ==> self.0@[i].address + orig <= 0xFFFF,
        ensures
            bp_wf(r.0@),
            r.0@.len() == self.0@.len(),
            forall|i: int| 0 <= i < self.0@.len() ==> r.0@[i].address == self.0@[i].address + orig
                && r.0@[i].is_predefined == self.0@[i].is_predefined,
//@end
}

} // verus!
fn main() {}
