// U-BP: src/debugger/breakpoint.rs — sorted, duplicate-free breakpoint list  (property C11)
#![allow(unused)]
#![feature(allocator_api)]
use vstd::prelude::*;
//@include shim.rs

verus! {
//@include common.rs

//@item src/debugger/breakpoint.rs struct Breakpoints derive=
//@item src/debugger/breakpoint.rs struct Breakpoint derive=Clone,Copy

//@include bp_spec.rs
//@include bp_lemmas.rs

// std behaviour assumed: Vec::retain keeps exactly the elements for which the closure returns true, in order
pub assume_specification<T, A: std::alloc::Allocator, F: FnMut(&T) -> bool> [Vec::<T, A>::retain] (v: &mut Vec<T, A>, f: F)
    requires forall|x: &T| f.requires((x,)),
    ensures forall|keep: spec_fn(T) -> bool| (forall|x: T, b: bool| #[trigger] f.ensures((&x,), b) ==> b == keep(x))
                ==> final(v)@ == #[trigger] old(v)@.filter(keep);

impl Breakpoints {
//@fn src/debugger/breakpoint.rs "impl Breakpoints" new ret=r props=C11
//@contract Breakpoints_new.c
//@end

//@fn src/debugger/breakpoint.rs "impl Breakpoints" len ret=r props=C11
//@contract Breakpoints_len.c
//@end
//@fn src/debugger/breakpoint.rs "impl Breakpoints" is_empty ret=r props=C11
//@contract Breakpoints_is_empty.c
//@end

//@fn src/debugger/breakpoint.rs "impl Breakpoints" get ret=r props=C11
//@sub <<<for breakpoint in &self.0 {>>> ==> <<<for breakpoint in it: &self.0
            invariant forall|j: int| 0 <= j < it.index@ ==> self.0[j].address != address,
        {>>>
//@contract Breakpoints_get.c
//@end

//@fn src/debugger/breakpoint.rs "impl Breakpoints" insert ret=r props=C11
//@sub <<<for (i, other) in self.iter().enumerate() {>>> ==> <<<for i in it: 0..self.0.len()
            invariant_except_break
                index == self.0.len(),
                forall|j: int| 0 <= j < i ==> self.0[j].address < breakpoint.address,
            invariant
                *self == *old(self),
                bp_wf(self.0@),
            ensures
                index <= self.0.len(),
                forall|j: int| 0 <= j < index ==> self.0[j].address < breakpoint.address,
                index < self.0.len() ==> self.0[index as int].address > breakpoint.address,
        {
            let other = &self.0[i];>>>
//@sub <<<self.0.insert(index, breakpoint);>>> ==> <<<self.0.insert(index, breakpoint);
        proof { lemma_insert_bp(old(self).0@, index as int, breakpoint); }>>>
//@contract Breakpoints_insert.c
//@end

//@fn src/debugger/breakpoint.rs "impl Breakpoints" remove ret=r props=C11
//@closure retain &Breakpoint bool
//@sub <<<initial_len != self.0.len()>>> ==> <<<proof { lemma_filter_bp(old(self).0@, address); }
        initial_len != self.0.len()>>>
//@contract Breakpoints_remove.c
//@end

//@fn src/debugger/breakpoint.rs "impl Breakpoints" with_orig ret=r props=C11
//@sub <<<for breakpoint in &mut self_.0 {
            breakpoint.address += orig;
        }>>> ==> <<<let mut verif_i: usize = 0;
        while verif_i < self_.0.len()
            invariant
                self_.0@.len() == self.0@.len(),
                forall|i: int| 0 <= i < verif_i ==> self_.0@[i].address == self.0@[i].address + orig && self_.0@[i].is_predefined == self.0@[i].is_predefined,
                forall|i: int| verif_i <= i < self.0@.len() ==> self_.0@[i] == self.0@[i],
                forall|i: int| 0 <= i < self.0@.len() ==> self.0@[i].address + orig <= 0xFFFF,
            decreases self_.0.len() - verif_i,
        {
            let breakpoint = &mut self_.0[verif_i]; // R12: `for x in &mut V` as an index loop
            breakpoint.address += orig;
            verif_i += 1;
        }>>>
//@contract Breakpoints_with_orig.c
//@end
}

} // verus!
fn main() {}
