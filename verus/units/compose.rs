// U-COMPOSE: property-level lemmas over the vocabulary of the contracts (no code of /repo here: pure proofs)
#![allow(unused)]
use vstd::prelude::*;
//@include shim.rs

verus! {
//@include common.rs
//@include arith_spec.rs
//@include symtab.rs
//@tpl parser_types.rs
//@item src/debugger/mod.rs enum Status derive=
//@include bp_spec.rs
//@include lines_spec.rs
//@include parse_spec.rs
//@include enc_spec.rs
//@include step_spec.rs
//@include load_spec.rs

// props: C01, C03
/// image handed to the loader by try_from (same definition as in U-TRY)
spec fn image_of(air: Air, n: int) -> Seq<u16> {
    Seq::new((n + 1) as nat, |i: int| if i == 0 { (if air.orig is Some { air.orig->Some_0 } else { 0x3000u16 }) }
        else { enc_spec(air.ast@[i - 1].stmt, air.ast@[i - 1].line)->Some_0 })
}
/// C01: with the parser's numbering (statement i carries line i+1), word i+1 of the image is the ISA encoding of statement i at
/// statement number i+1, and after loading it sits at address orig + i
proof fn lemma_image_is_encoding(air: Air, i: int)
    requires lines_ok(air.ast@), 0 <= i < air.ast@.len(), air.ast@.len() <= 0xFFFF,
        load_ok(image_of(air, air.ast@.len() as int)),
    ensures
        image_of(air, air.ast@.len() as int)[i + 1] == enc_spec(air.ast@[i].stmt, (i + 1) as u16)->Some_0,
        load_mem(image_of(air, air.ast@.len() as int))[image_of(air, air.ast@.len() as int)[0] as int + i]
            == enc_spec(air.ast@[i].stmt, (i + 1) as u16)->Some_0,
{
    let img = image_of(air, air.ast@.len() as int);
    assert(air.ast@[i].line as int == i + 1);
    assert(img[i + 1] == enc_spec(air.ast@[i].stmt, air.ast@[i].line)->Some_0);
}

/// C01 "every PC-relative field equals the target address minus the instruction's address plus one": a field that encodes the
/// distance from statement `n` to label line `l` makes the machine executing at address orig + n - 1 (PC already orig + n)
/// address orig + l - 1, the address of the statement the label marks — modulo 2^16, for every origin
proof fn lemma_pcrel_targets_label(orig: u16, n: u16, l: u16, bits: int)
    requires 9 <= bits <= 11, pcoff_spec(l, n, bits) is Some,
    ensures add16(((orig as int + n as int) % 0x10000) as u16, sext(pcoff_spec(l, n, bits)->Some_0, bits))
        == ((orig as int + l as int - 1) % 0x10000) as u16,
{
    reveal(pcoff_spec); reveal(dist16);
    let pc = ((orig as int + n as int) % 0x10000) as u16;
    let d = dist16(l, n);
    let f = pcoff_spec(l, n, bits)->Some_0;
    assert(p2(9) == 512 && p2(10) == 1024 && p2(11) == 2048 && p2(8) == 256);
    assert(-p2(bits - 1) <= d < p2(bits - 1));
    assert(f as int == (if d >= 0 { d } else { d + p2(bits) }));
    assert(p2(bits) == 2 * p2(bits - 1));
    assert(0 <= f as int && (f as int) < p2(bits));
    vstd::arithmetic::div_mod::lemma_small_mod(f as nat, p2(bits) as nat);
    assert((f as int) % p2(bits) == f as int);
    assert(sext(f, bits) as int == (if d >= 0 { d } else { d + 0x10000 }));
    let m = (l as int - n as int - 1) % 0x10000;
    assert(d == (if m >= 0x8000 { m - 0x10000 } else { m }));
    assert((pc as int + d) % 0x10000 == (orig as int + l as int - 1) % 0x10000) by (nonlinear_arith)
        requires
            pc as int == (orig as int + n as int) % 0x10000,
            m == (l as int - n as int - 1) % 0x10000,
            d == (if m >= 0x8000 { m - 0x10000 } else { m }),
            0 <= n < 0x10000, 0 <= orig < 0x10000, 0 <= l < 0x10000;
    assert((pc as int + sext(f, bits) as int) % 0x10000 == (pc as int + d) % 0x10000) by (nonlinear_arith)
        requires sext(f, bits) as int == (if d >= 0 { d } else { d + 0x10000 });
}

// props: C17, C13
/// the assumption `sym_fits` of the debugger unit follows from the parser's and the loader's contracts: labels defined by an
/// assembly started on an empty table are statement numbers in [1, len+1], and a loaded image satisfies orig + len + 1 <= 0x10000
proof fn lemma_label_addresses_fit(table: Map<Seq<char>, u16>, len: int, orig: u16)
    requires table_grown(Map::<Seq<char>, u16>::empty(), table, len + 1), orig as int + len + 1 <= 0x10000, len >= 0,
    ensures forall|k: Seq<char>| #[trigger] table.contains_key(k) ==> table[k] >= 1 && (table[k] - 1) + orig as int <= 0xFFFF,
{ }

// props: C10
/// the status a `step into N` leaves behind after j of its proceed decisions (N = c + 1 stored as count c)
spec fn after(c: int, j: int) -> Status
    decreases j,
{
    if j <= 0 { Status::StepInto { count: c as u16 } }
    else { match after(c, j - 1) { Status::StepInto { count } => if count > 0 { Status::StepInto { count: (count - 1) as u16 } } else { Status::WaitForAction }, s => s } }
}
/// C10 counting lemma (induction): from StepInto{c}, with no interrupt, next_action proceeds exactly c + 1 times — the j-th
/// decision (j <= c) leaves StepInto{c - j}, the (c+1)-th leaves WaitForAction — so `step into N` (which stores max(N,1) - 1)
/// executes exactly max(N,1) instructions
proof fn lemma_step_into_counts(c: int, j: int)
    requires 0 <= c <= 0xFFFF, 0 <= j <= c + 1,
    ensures j <= c ==> after(c, j) == (Status::StepInto { count: (c - j) as u16 }),
        j == c + 1 ==> after(c, j) is WaitForAction,
    decreases j,
{
    if j > 0 { lemma_step_into_counts(c, j - 1); }
}

} // verus!
fn main() {}
