// U-EVAL: src/debugger/eval.rs eval_inner — eval executes the instruction it is given, here and now  (C15)
#![allow(unused)]
use vstd::prelude::*;
//@include shim.rs

mod bv {
use vstd::prelude::*;
verus! {
pub broadcast proof fn lemma_wrapping_sub(a: u16, b: u16)
    ensures #[trigger] a.wrapping_sub(b) as int == (a as int - b as int) % 0x10000
{ }
pub broadcast proof fn lemma_shr12(x: u16) ensures #[trigger] (x >> 12u16) < 16 { assert((x >> 12u16) < 16) by (bit_vector); }
pub broadcast group group_bv { lemma_wrapping_sub, lemma_shr12 }
}
}

mod features {
use vstd::prelude::*;
verus! {
pub uninterp spec fn stack_spec() -> bool;
}
}

verus! {
//@include common.rs
//@include arith_spec.rs
//@include symtab.rs
//@tpl parser_types.rs
//@item src/runtime.rs const MEMORY_MAX
//@item src/runtime.rs struct RunState derive=
//@item src/runtime.rs enum RunFlag derive=Clone,Copy
//@include bp_spec.rs
//@include lines_spec.rs
//@include parse_spec.rs
//@include parser_helpers.rs
//@include enc_spec.rs
//@include air_spec.rs
//@include step_spec.rs

broadcast use crate::bv::group_bv;

spec fn flag_cc(f: RunFlag) -> u16 {
    match f { RunFlag::N => 4u16, RunFlag::Z => 2u16, RunFlag::P => 1u16, RunFlag::Uninit => 0u16 }
}
spec fn view(s: RunState) -> MState {
    MState { reg: s.reg@, mem: s.mem@, pc: s.pc, cc: flag_cc(s.flag), orig: s.orig, psr: s._psr }
}
/// statements `eval` agrees to simulate (everything but BR*, RTI, HALT, unknown traps, raw words)
spec fn eval_allowed(st: AirStmt) -> bool {
    !(st is Branch) && !(st is Interrupt) && !(st is RawWord)
    && (st matches AirStmt::Trap { trap_vect } ==> trap_vect != 0x25 && 0x20 <= trap_vect <= 0x27)
}
/// the tokens of a one-line text (lexer + preprocess_simple: the text layer is not deductively verified)
uninterp spec fn simple_tokens(src: &'static str, line: u16) -> Seq<Token>;
/// C15: `st0` is THE statement the text denotes when it is numbered `n`: exactly one well-formed instruction (operands in ISA
/// order taken from the text's tokens, a label operand as named) or trap, and nothing after it
spec fn text_denotes(src: &'static str, n: u16, table: Map<Seq<char>, u16>, st0: AirStmt) -> bool {
    let toks = simple_tokens(src, n);
    toks.len() > 0 && !(st0 is RawWord) && match toks[0].kind {
        TokenKind::Instr(k) => accepts(k, toks.skip(1)) matches Some(m) && stmt_ok(k, st0, toks.skip(1), n, src, table) && toks.len() == m + 1,
        TokenKind::Trap(k) => match trap_vector_spec(k) {
            Some(v) => st0 == (AirStmt::Trap { trap_vect: v }) && toks.len() == 1,
            None => toks.len() == 2 && num_ok(toks[1], Bits::Unsigned(8)) && st0 == (AirStmt::Trap { trap_vect: low8(num_of(toks[1])) }),
        },
        _ => false,
    }
}
/// `st` is `st0` with its label operand (if any) resolved through the symbol table
spec fn stmt_resolved(st0: AirStmt, st: AirStmt, table: Map<Seq<char>, u16>) -> bool {
    match stmt_label(st0) {
        None => st == st0,
        Some(l) => resolved(l, table) matches Some(rl) && st == with_label(st0, rl),
    }
}
/// names the pair of witnesses of eval_inner's postcondition
spec fn eval_witness(st0: AirStmt, st: AirStmt) -> bool { true }
/// the link register of JSR / JSRR / CALL under eval is left unspecified by C15 (is the instruction "at" the PC or before it?)
spec fn is_linking(st: AirStmt) -> bool { st is JumbSub || st is JumpSubReg || st is Call }
spec fn mstate_eq_but_r7(a: MState, b: MState) -> bool {
    a.mem == b.mem && a.pc == b.pc && a.cc == b.cc && a.orig == b.orig && a.psr == b.psr
    && a.reg.len() == b.reg.len() && forall|i: int| 0 <= i < a.reg.len() && i != 7 ==> a.reg[i] == b.reg[i]
}
/// statement number given to the evaluated instruction: the statement just before the current PC
spec fn eval_number(s: RunState) -> u16 { ((s.pc as int - s.orig as int) % 0x10000) as u16 }

// props: C15
/// Composition lemma (emit o execute): numbered `pc - orig`, a PC-relative field that encodes the distance to label
/// line `l` makes the executing machine (PC already at `pc`) address `orig + l - 1` — the label's own address — at EVERY pc.
proof fn lemma_eval_label_target(pc: u16, orig: u16, l: u16, bits: int)
    requires 9 <= bits <= 11, pcoff_spec(l, ((pc as int - orig as int) % 0x10000) as u16, bits) is Some,
    ensures add16(pc, sext(pcoff_spec(l, ((pc as int - orig as int) % 0x10000) as u16, bits)->Some_0, bits))
        == ((orig as int + l as int - 1) % 0x10000) as u16,
{
    reveal(pcoff_spec); reveal(dist16);
    let n = ((pc as int - orig as int) % 0x10000) as u16;
    let d = dist16(l, n);
    let f = pcoff_spec(l, n, bits)->Some_0;
    assert(p2(9) == 512 && p2(10) == 1024 && p2(11) == 2048 && p2(8) == 256);
    assert(-p2(bits - 1) <= d < p2(bits - 1));
    assert(f as int == (if d >= 0 { d } else { d + p2(bits) }));
    // the field holds d modulo 2^bits; sign extension recovers d modulo 2^16
    assert((f as int) % p2(bits) == f as int);
    assert(sext(f, bits) as int == (if d >= 0 { d } else { d + 0x10000 }));
    let m = (l as int - n as int - 1) % 0x10000;
    assert(d == (if m >= 0x8000 { m - 0x10000 } else { m }));
    assert((pc as int + d) % 0x10000 == (orig as int + l as int - 1) % 0x10000) by (nonlinear_arith)
        requires
            n as int == (pc as int - orig as int) % 0x10000,
            m == (l as int - n as int - 1) % 0x10000,
            d == (if m >= 0x8000 { m - 0x10000 } else { m }),
            0 <= pc < 0x10000, 0 <= orig < 0x10000, 0 <= l < 0x10000;
    assert((pc as int + sext(f, bits) as int) % 0x10000 == (pc as int + d) % 0x10000) by (nonlinear_arith)
        requires sext(f, bits) as int == (if d >= 0 { d } else { d + 0x10000 });
}

/// Opcode facts about the ISA encoding. Bit-vector reasoning over all statement kinds: ASSUMED here, discharged for the
/// executable reference enc_ref (proved equal to enc_spec in U-AIR) by the complete Kani harness enc_opcode_complete.
#[verifier::external_body]
proof fn lemma_enc_opcode(st: AirStmt, line: u16)
    requires enc_spec(st, line) is Some, !(st is RawWord),
    ensures
        ((enc_spec(st, line)->Some_0 >> 12u16) == 13) <==> (st is Push || st is Pop || st is Call || st is Rets),
        ((enc_spec(st, line)->Some_0 >> 12u16) == 15) <==> st is Trap,
        st matches AirStmt::Trap { trap_vect } ==> enc_spec(st, line)->Some_0 & 0xFFu16 == trap_vect as u16,
{ }

impl RunState {
//@fn src/runtime.rs "impl RunState" pc ret=r props=C15
        ensures r == self.pc,
//@end
//@fn src/runtime.rs "impl RunState" orig ret=r props=C15
        ensures r == self.orig,
//@end
//@fn src/runtime.rs "impl RunState" execute props=C15 assumed
//@contract RunState_execute.c
//@end
}

impl Span {
//@fn src/symbol.rs "impl Span" dummy ret=r props=C15
        ensures r.len == 0,
//@end
}

impl AsmParser {
    /// lexer + preprocess_simple (text layer: not deductively verified). Assumed: one line's tokens, no Byte/Breakpoint
    /// tokens, `.orig` the only directive... and the four stack mnemonics only with the feature flag on (C18, Kani)
    #[verifier::external_body]
    fn new_simple(src: &'static str, line: u16) -> (r: Result<AsmParser>)
        ensures r matches Ok(p) ==> pstream_ok(p) && p.line == line && p.src == src
            && p.toks.all() == simple_tokens(src, line) && p.toks.pos() == 0
            && (forall|i: int| 0 <= i < p.toks.all().len() ==> !((#[trigger] p.toks.all()[i]).kind is Byte || p.toks.all()[i].kind is Breakpoint))
            && (forall|i: int| 0 <= i < p.toks.all().len() ==> ((#[trigger] p.toks.all()[i]).kind matches TokenKind::Instr(k)
                    ==> (k is Push || k is Pop || k is Call || k is Rets) ==> features::stack_spec())),
    { unimplemented!() }
//@fn src/parser.rs "impl AsmParser" parse_simple ret=r props=C15 assumed
//@symtab
//@contract AsmParser_parse_simple.c
//@end
}

impl AsmLine {
//@fn src/air.rs "impl AsmLine" new ret=r props=C15 assumed
//@contract AsmLine_new.c
//@end
//@fn src/air.rs "impl AsmLine" backpatch ret=r props=C15 assumed
//@symtab
//@contract AsmLine_backpatch.c
//@end
//@fn src/air.rs "impl AsmLine" emit ret=r props=C15 assumed
//@contract AsmLine_emit.c
//@end
}

//@fn src/debugger/eval.rs - eval_inner ret=r props=C15
//@symtab
//@suball <<<return Ok(());>>> ==> <<<proof { assert(eval_witness(stmt, stmt)); } return Ok(());>>>
//@sub <<<state.execute(instr);>>> ==> <<<proof {
        assert(eval_allowed(asm.stmt));
        assert(eval_witness(stmt, asm.stmt)); // names the witnesses of the postcondition's `exists`
        lemma_enc_opcode(asm.stmt, number);
        // C15 "never ends the session": the instruction handed to the VM cannot take one of its error exits
        assert(!(step_spec(view(*state), instr, features::stack_spec()) is Exit));
    }
    state.execute(instr);>>>
        ensures
            final(sym)@ == old(sym)@,
            // refused (parse error, undefined label, offset out of range): no effect
            r is Err ==> *final(state) == *old(state),
            // accepted: the text denotes exactly one statement st0 (tokens -> operands per the C01 operand table). If st0 is
            // off-limits (BR*, RTI, HALT, unknown trap vector) nothing happens; otherwise the machine does exactly the ISA step of
            // the encoding of st0 — label operand resolved through the symbol table — numbered `pc - orig` (so that the label
            // denotes its own address, lemma_eval_label_target)
            r is Ok ==> exists|st0: AirStmt, st: AirStmt| #[trigger] eval_witness(st0, st)
                && text_denotes(line, eval_number(*old(state)), old(sym)@, st0)
                && (if !eval_allowed(st0) { *final(state) == *old(state) } else {
                    stmt_resolved(st0, st, old(sym)@) && stmt_labels_filled(st) && enc_spec(st, eval_number(*old(state))) is Some
                    && match step_spec(view(*old(state)), enc_spec(st, eval_number(*old(state)))->Some_0, features::stack_spec()) {
                        Step::Next(s) => if is_linking(st) { mstate_eq_but_r7(view(*final(state)), s) } else { mstate_eq(view(*final(state)), s) },
                        Step::Exit(c) => false,
                        Step::Unspecified => only_r0_changed(view(*old(state)), view(*final(state))),
                    }
                }),
//@end

} // verus!
fn main() {}
