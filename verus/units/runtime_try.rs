// U-TRY: src/runtime.rs RunEnvironment::try_from — AIR -> image -> machine (+ debugger construction)  (C03 C06 C11 C12)
#![allow(unused)]
use vstd::prelude::*;
//@include shim.rs

verus! {
//@include common.rs
//@include arith_spec.rs
//@include step_spec.rs
//@include load_spec.rs

//@item src/symbol.rs enum Register
//@item src/symbol.rs enum Flag
//@item src/symbol.rs enum Label derive=
//@item src/air.rs enum ImmediateOrReg
//@item src/air.rs struct RawWord
//@item src/symbol.rs struct SrcOffset derive=Clone,Copy
//@item src/symbol.rs struct Span derive=Clone,Copy
//@item src/air.rs enum AirStmt derive=
//@item src/air.rs struct AsmLine derive=
//@item src/debugger/breakpoint.rs struct Breakpoints derive=
//@item src/debugger/breakpoint.rs struct Breakpoint derive=Clone,Copy
//@item src/air.rs struct Air derive=
//@item src/runtime.rs const USER_MEMORY_END
//@item src/runtime.rs const MEMORY_MAX
//@item src/runtime.rs struct RunEnvironment derive=
//@item src/runtime.rs struct RunState derive=
//@item src/runtime.rs enum RunFlag derive=Clone,Copy
//@item src/debugger/mod.rs struct Options derive=

//@include bp_spec.rs
//@include enc_spec.rs

spec fn flag_cc(f: RunFlag) -> u16 {
    match f { RunFlag::N => 4u16, RunFlag::Z => 2u16, RunFlag::P => 1u16, RunFlag::Uninit => 0u16 }
}
spec fn view(s: RunState) -> MState {
    MState { reg: s.reg@, mem: s.mem@, pc: s.pc, cc: flag_cc(s.flag), orig: s.orig, psr: s._psr }
}

/// R10: the debugger is a record of what it was constructed from (its own behaviour is U-DBG)
#[verifier::external_body]
struct Debugger { _opaque: u8 }
impl Debugger {
    uninterp spec fn initial_state(&self) -> RunState;
    uninterp spec fn breakpoints(&self) -> Breakpoints;
    uninterp spec fn ast(&self) -> Vec<AsmLine>;
    /// Debugger::new (fields proved in U-DBG: initial_state, breakpoints, orig = initial_state.pc)
    #[verifier::external_body]
    fn new(opts: Options, initial_state: RunState, breakpoints: Breakpoints, ast: Vec<AsmLine>, src: &'static str) -> (r: Debugger)
        ensures r.initial_state() == initial_state, r.breakpoints() == breakpoints, r.ast() == ast,
    { unimplemented!() }
}

impl RunState {
    // `#[derive(Clone)]` on RunState (checked by tools/scan.py): structural clone
    #[verifier::external_body]
    fn clone(&self) -> (r: RunState) ensures r == *self { unimplemented!() }
}
impl Breakpoints {
//@fn src/debugger/breakpoint.rs "impl Breakpoints" with_orig ret=r props=C11 assumed
//@contract Breakpoints_with_orig.c
//@end
}
impl Air {
//@fn src/air.rs "impl Air" orig ret=r props=C03 assumed
//@contract Air_orig.c
//@end
//@fn src/air.rs "impl Air" len ret=r props=C03 assumed
//@contract Air_len.c
//@end
}
impl AsmLine {
//@fn src/air.rs "impl AsmLine" emit ret=r props=C03 assumed
//@contract AsmLine_emit.c
//@end
}

/// the image `try_from` hands to the loader: origin (0x3000 when the source has no .orig) then one word per statement
spec fn image_of(air: Air, n: int) -> Seq<u16> {
    Seq::new((n + 1) as nat, |i: int| if i == 0 { (if air.orig is Some { air.orig->Some_0 } else { 0x3000u16 }) }
        else { enc_spec(air.ast@[i - 1].stmt, air.ast@[i - 1].line)->Some_0 })
}
spec fn all_emit(air: Air) -> bool {
    forall|i: int| 0 <= i < air.ast@.len() ==> enc_spec(#[trigger] air.ast@[i].stmt, air.ast@[i].line) is Some
}

impl RunEnvironment {
//@fn src/runtime.rs "impl RunEnvironment" from_raw ret=r props=C03,C06 assumed
//@contract RunEnvironment_from_raw.c
//@end

//@fn src/runtime.rs "impl RunEnvironment" try_from ret=r props=C03,C06,C11,C12
//@sub <<<for stmt in &air {
            air_array.push(stmt.emit()?);
        }>>> ==> <<<for stmt in it: &air.ast
            invariant
                air_array@.len() == it.index@ + 1,
                air_array@ =~= image_of(air, it.index@),
                forall|j: int| 0 <= j < it.index@ ==> enc_spec(#[trigger] air.ast@[j].stmt, air.ast@[j].line) is Some,
                forall|j: int| 0 <= j < air.ast@.len() ==> stmt_labels_filled(#[trigger] air.ast@[j].stmt),
        {
            air_array.push(stmt.emit()?);
        }>>>
//@sub <<<air_array.as_slice()>>> ==> <<<verif_as_slice(&air_array)>>>
        requires
            air.ast@.len() < usize::MAX,
            forall|j: int| 0 <= j < air.ast@.len() ==> stmt_labels_filled(#[trigger] air.ast@[j].stmt),
            bp_wf(air.breakpoints.0@),
            forall|i: int| 0 <= i < air.breakpoints.0@.len() ==> (#[trigger] air.breakpoints.0@[i]).address as int <= air.ast@.len(),
        ensures
            // a statement that cannot be emitted is an error; otherwise the machine is the loader's image of the program
            !all_emit(air) ==> r is Err,
            r matches Ok(env) ==> all_emit(air) && load_ok(image_of(air, air.ast@.len() as int))
                && mstate_eq(view(env.state), load_spec(image_of(air, air.ast@.len() as int)))
                && (debugger_opts is None ==> env.debugger is None)
                // C12 / C11: the debugger is created from a copy of exactly that initial machine and the .break table + origin
                && (debugger_opts is Some ==> (env.debugger matches Some(d) && d.initial_state() == env.state && d.ast() == air.ast
                    && d.breakpoints().0@.len() == air.breakpoints.0@.len() && bp_wf(d.breakpoints().0@)
                    && forall|i: int| 0 <= i < air.breakpoints.0@.len() ==> (#[trigger] d.breakpoints().0@[i]).address as int
                        == air.breakpoints.0@[i].address as int + env.state.pc as int)),
//@end
}

#[verifier::external_body]
fn verif_as_slice(v: &Vec<u16>) -> (r: &[u16]) ensures r@ == v@, r@.len() <= isize::MAX /* slice type invariant */ { v.as_slice() }

} // verus!
fn main() {}
