// U-AIR: src/air.rs + the value types of src/symbol.rs  (properties C01 C04 C05 C07)
#![allow(unused)]
// emit: 22-way match with merged result; Z3's relevancy filter makes the merged postcondition explode (40 s), without it 1.5 s
//@smt_option smt.relevancy=0
use vstd::prelude::*;
//@include shim.rs

mod bv {
use vstd::prelude::*;
verus! {
// truncating casts and masks used by bit_offs (proved by the bit-vector back end)
pub broadcast proof fn lemma_mask9(x: u16) ensures #[trigger] (x & 0x1ff) == x % 0x200 { assert((x & 0x1ff) == x % 0x200) by (bit_vector); }
pub broadcast proof fn lemma_mask10(x: u16) ensures #[trigger] (x & 0x3ff) == x % 0x400 { assert((x & 0x3ff) == x % 0x400) by (bit_vector); }
pub broadcast proof fn lemma_mask11(x: u16) ensures #[trigger] (x & 0x7ff) == x % 0x800 { assert((x & 0x7ff) == x % 0x800) by (bit_vector); }
pub broadcast proof fn lemma_i16_as_u16(x: i16)
    ensures #[trigger] (x as u16) as int == (if x < 0 { x as int + 0x10000 } else { x as int })
{ assert((x as u16) as int == (if x < 0 { x as int + 0x10000 } else { x as int })) by (bit_vector); }
pub broadcast proof fn lemma_u16_as_i16(x: u16)
    ensures #[trigger] (x as i16) as int == (if x >= 0x8000 { x as int - 0x10000 } else { x as int })
{ assert((x as i16) as int == (if x >= 0x8000 { x as int - 0x10000 } else { x as int })) by (bit_vector); }
pub broadcast proof fn lemma_wrapping_sub(a: u16, b: u16)
    ensures #[trigger] a.wrapping_sub(b) as int == (a as int - b as int) % 0x10000
{ }
pub broadcast group group_bv { lemma_wrapping_sub, lemma_mask9, lemma_mask10, lemma_mask11, lemma_i16_as_u16, lemma_u16_as_i16 }
}
}

verus! {
//@include common.rs
//@include std_int.rs
//@include symtab.rs

//@item src/symbol.rs enum Register
//@item src/symbol.rs enum Flag
//@item src/symbol.rs enum Label derive=
//@item src/air.rs enum ImmediateOrReg
//@item src/air.rs struct RawWord
//@item src/symbol.rs struct SrcOffset derive=Clone,Copy
//@item src/symbol.rs struct Span derive=Clone,Copy
//@item src/air.rs enum AirStmt derive=
//@item src/air.rs struct AsmLine derive=
//@item src/debugger/breakpoint.rs struct Breakpoints derive=
//@item src/debugger/breakpoint.rs struct Breakpoint derive=Clone,Copy
//@item src/air.rs struct Air derive=
//@include bp_spec.rs
//@include lines_spec.rs
//@include air_spec.rs

//@include enc_spec.rs


impl Flag {
//@fn src/symbol.rs "impl Flag" bits ret=r props=C01
        ensures r == flag_bits(*self),
//@end
}

impl ImmediateOrReg {
//@fn src/air.rs "impl ImmediateOrReg" bits ret=r props=C01
        ensures r == immreg_spec(*self),
//@end
}

impl Breakpoints {
//@fn src/debugger/breakpoint.rs "impl Breakpoints" new ret=r props=C11 assumed
//@contract Breakpoints_new.c
//@end
}

impl Clone for Label {
    #[verifier::external_body]
    fn clone(&self) -> (r: Label) ensures r == *self { unimplemented!() }
}
impl Label {
//@fn src/symbol.rs "impl Label" filled ret=r props=C01,C04 assumed
//@symtab
//@contract Label_filled.c
//@end
}

impl Air {
//@fn src/air.rs "impl Air" new ret=r props=C01,C19
//@contract Air_new.c
//@end
//@fn src/air.rs "impl Air" set_orig ret=r props=C04
//@contract Air_set_orig.c
//@end
//@fn src/air.rs "impl Air" orig ret=r props=C01
//@contract Air_orig.c
//@end
//@fn src/air.rs "impl Air" len ret=r props=C01
//@contract Air_len.c
//@end
//@fn src/air.rs "impl Air" add_stmt props=C01,C05,C17
//@contract Air_add_stmt.c
//@end
//@fn src/air.rs "impl Air" backpatch ret=r props=C01,C04,C07
//@symtab
//@sub <<<for stmt in self.ast.iter_mut() {
            stmt.backpatch(sym)?;
        }>>> ==> <<<let mut verif_i: usize = 0;
        while verif_i < self.ast.len()
            invariant
                sym@ == old(sym)@,
                self.ast@.len() == old(self).ast@.len(),
                self.orig == old(self).orig, self.breakpoints == old(self).breakpoints, self.src == old(self).src,
                forall|i: int| 0 <= i < verif_i ==> backpatched(old(self).ast@[i], self.ast@[i], sym@) && stmt_labels_filled(self.ast@[i].stmt),
                forall|i: int| verif_i <= i < self.ast@.len() ==> self.ast@[i] == old(self).ast@[i],
            decreases self.ast.len() - verif_i,
        {
            let stmt = &mut self.ast[verif_i]; // R12: `for x in v.iter_mut()` as an index loop
            stmt.backpatch(sym)?;
            verif_i += 1;
        }>>>
//@contract Air_backpatch.c
//@end
}

impl AsmLine {
//@fn src/air.rs "impl AsmLine" backpatch ret=r props=C01,C04,C07
//@symtab
//@contract AsmLine_backpatch.c
//@end

//@fn src/air.rs "impl AsmLine" new ret=r props=C01
//@contract AsmLine_new.c
//@end

//@fn src/air.rs "impl AsmLine" bit_offs ret=r props=C01,C04,C05,C07
//@sub <<<let label_pos = match ref_label {>>> ==> <<<broadcast use crate::bv::group_bv;
        proof { reveal(dist16); reveal(pcoff_spec); }
        let label_pos = match ref_label {>>>
        requires
            ref_label is Ref,
            9 <= bits <= 11,
        ensures
            enc_ok(r, pcoff_spec(lbl(*ref_label), self.line, bits as int)),
//@end

//@fn src/air.rs "impl AsmLine" emit ret=r props=C01,C04,C05,C07
//@contract AsmLine_emit.c
//@end
}

// ---- the executable reference used by the Kani twin (kani/harness/ref_enc.rs) is proved equal to the spec
// props: C01, C04
pub assume_specification [i32::rem_euclid] (a: i32, b: i32) -> (r: i32)
    requires b > 0,
    ensures r as int == (a as int) % (b as int);

//@fn verif:kani/harness/ref_enc.rs - pcoff_ref ret=r props=C01,C04
        requires 9 <= bits <= 11,
        ensures r == pcoff_spec(label_line, line, bits as int),
//@sub <<<let (half, full): (i32, i32) = match bits {>>> ==> <<<proof { reveal(dist16); reveal(pcoff_spec); }
    let (half, full): (i32, i32) = match bits {>>>
//@end
//@fn verif:kani/harness/ref_enc.rs - with_off_ref ret=r props=C01
        ensures r == with_off(base, o),
//@end
//@fn verif:kani/harness/ref_enc.rs - lbl_ref ret=r props=C01
        ensures l is Ref ==> r == lbl(*l),
//@end
//@fn verif:kani/harness/ref_enc.rs - immreg_ref ret=r props=C01
        ensures r == immreg_spec(*x),
//@end
//@fn verif:kani/harness/ref_enc.rs - flag_ref ret=r props=C01
        ensures r == flag_bits(*f),
//@end
//@fn verif:kani/harness/ref_enc.rs - enc_ref ret=r props=C01,C04
        requires stmt_labels_filled(*s),
        ensures r == enc_spec(*s, line),
//@end

} // verus!
fn main() {}
