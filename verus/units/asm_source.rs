// U-ASM: src/debugger/asm.rs (address -> statement) and resolve_symbol_address (label -> statement index)  (C17)
#![allow(unused)]
use vstd::prelude::*;
//@include shim.rs

verus! {
//@include common.rs
//@include symtab.rs

//@item src/symbol.rs enum Register
//@item src/symbol.rs enum Flag
//@item src/symbol.rs enum Label derive=
//@item src/air.rs enum ImmediateOrReg
//@item src/air.rs struct RawWord
//@item src/symbol.rs struct SrcOffset derive=Clone,Copy
//@item src/symbol.rs struct Span derive=Clone,Copy
//@item src/air.rs enum AirStmt derive=
//@item src/air.rs struct AsmLine derive=
//@item src/debugger/asm.rs struct AsmSource derive=

impl AsmSource {
//@fn src/debugger/asm.rs "impl AsmSource" from ret=r props=C17
        ensures r.orig == orig, r.ast == ast, r.src == src,
//@end
//@fn src/debugger/asm.rs "impl AsmSource" orig ret=r props=C17
        ensures r == self.orig,
//@end
//@fn src/debugger/asm.rs "impl AsmSource" get_source_statement ret=r props=C17,C09
        ensures
            // exactly the addresses that hold an assembled statement map to it; all others show nothing
            (self.orig as int <= address as int && (address as int) < self.orig as int + self.ast@.len())
                ==> r == Some(&self.ast@[address as int - self.orig as int]),
            !(self.orig as int <= address as int && (address as int) < self.orig as int + self.ast@.len()) ==> r is None,
//@end
}

//@fn src/debugger/mod.rs - resolve_symbol_address ret=r props=C17,C13
//@symtab
//@sub <<<for key in sym.keys() {
            if key.eq_ignore_ascii_case(label) {
                ();
                break;
            }
        }>>> ==> <<<// (loop over the keys that only prints a "similar label" hint: dropped with its output, R4)>>>
        requires
            // statement numbers start at 1 (U-PARSE: table_grown)
            forall|k: Seq<char>| old(sym)@.contains_key(k) ==> old(sym)@[k] >= 1,
        ensures
            final(sym)@ == old(sym)@,
            // label -> index of the statement it marks (its address is orig + index)
            r == (if old(sym)@.contains_key(label@) { Some((old(sym)@[label@] - 1) as u16) } else { None::<u16> }),
//@end

} // verus!
fn main() {}
