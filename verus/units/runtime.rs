// U-RT: src/runtime.rs — instruction handlers, dispatch, stack extension  (properties C02 C18; load/run in runtime_env)
#![allow(unused)]
use vstd::prelude::*;
//@include shim.rs
use std::cmp::Ordering;

mod bv {
use vstd::prelude::*;
verus! {
pub broadcast proof fn lemma_and7(x: u16) ensures #[trigger] (x & 7u16) < 8 { assert((x & 7u16) < 8) by (bit_vector); }
pub broadcast proof fn lemma_wrapping_add(a: u16, b: u16)
    ensures #[trigger] a.wrapping_add(b) as int == (a as int + b as int) % 0x10000
{ }
pub broadcast proof fn lemma_u16_as_i16(x: u16)
    ensures #[trigger] (x as i16) as int == (if x >= 0x8000 { x as int - 0x10000 } else { x as int })
{ assert((x as i16) as int == (if x >= 0x8000 { x as int - 0x10000 } else { x as int })) by (bit_vector); }
pub broadcast proof fn lemma_shr12(x: u16) ensures #[trigger] (x >> 12u16) < 16 { assert((x >> 12u16) < 16) by (bit_vector); }
pub broadcast proof fn lemma_and_comm(a: u16, b: u16) ensures #[trigger] (a & b) == b & a { assert((a & b) == b & a) by (bit_vector); }
pub broadcast group group_bv { lemma_and_comm, lemma_and7, lemma_wrapping_add, lemma_u16_as_i16, lemma_shr12 }
}
}

mod features {
use vstd::prelude::*;
verus! {
/// the value of the process-wide stack feature flag (constant during a run: assumption)
pub uninterp spec fn stack_spec() -> bool;
#[verifier::external_body]
pub fn stack() -> (r: bool) ensures r == stack_spec() { unimplemented!() }
}
}

verus! {
//@include common.rs
//@include arith_spec.rs
//@include step_spec.rs

//@item src/runtime.rs const USER_MEMORY_END
//@item src/runtime.rs const HALT_ADDRESS
//@item src/runtime.rs const MEMORY_MAX
//@item src/runtime.rs struct RunState derive=
//@item src/runtime.rs enum RunFlag derive=Clone,Copy

broadcast use crate::bv::group_bv;

spec fn flag_cc(f: RunFlag) -> u16 {
    match f { RunFlag::N => 4u16, RunFlag::Z => 2u16, RunFlag::P => 1u16, RunFlag::Uninit => 0u16 }
}
spec fn view(s: RunState) -> MState {
    MState { reg: s.reg@, mem: s.mem@, pc: s.pc, cc: flag_cc(s.flag), orig: s.orig, psr: s._psr }
}

/// RTI's `todo!()`: the one panic the property list excludes; modelled as divergence (never returns)
#[verifier::external_body]
fn verif_todo_rti() -> ! { unimplemented!() }

/// I/O: one input character (value outside the contract)
#[verifier::external_body]
fn read_char() -> char { unimplemented!() }

impl RunState {
// ---- R8: unsafe accessors; bodies trusted, every call site must prove the bound
//@fn src/runtime.rs "impl RunState" reg ret=r props=C02 ext
//@contract RunState_reg.c
//@end
//@fn src/runtime.rs "impl RunState" reg_mut ret=r props=C02 ext
//@contract RunState_reg_mut.c
//@end
//@fn src/runtime.rs "impl RunState" mem ret=r props=C02 ext
//@contract RunState_mem.c
//@end
//@fn src/runtime.rs "impl RunState" mem_mut ret=r props=C02 ext
//@contract RunState_mem_mut.c
//@end

// ---- s_ext: contract assumed here; discharged by the complete Kani harness kani/harness/runtime.rs::s_ext_complete
//@fn src/runtime.rs "impl RunState" s_ext ret=r props=C02 ext
        requires 0 < bits < 16,
        ensures r == sext(val, bits as int),
//@end

//@fn src/runtime.rs "impl RunState" set_flags props=C02
        ensures view(*final(self)) == (MState { cc: cc_of(val), ..view(*old(self)) }),
//@end

//@fn src/runtime.rs "impl RunState" push_val props=C02,C18
        requires features::stack_spec(),
        ensures mstate_eq(view(*final(self)), push_spec(view(*old(self)), val)),
//@end
//@fn src/runtime.rs "impl RunState" pop_val ret=r props=C02,C18
        requires features::stack_spec(),
        ensures mstate_eq(view(*final(self)), pop_state(view(*old(self)))), r == pop_value(view(*old(self))),
//@end

//@fn src/runtime.rs "impl RunState" stack props=C02,C18
//@exit 1 !features::stack_spec()
        requires instr >> 12u16 == 13,
        ensures features::stack_spec(), mstate_eq(view(*final(self)), step_stack(view(*old(self)), instr)),
//@end

//@fn src/runtime.rs "impl RunState" add props=C02
        ensures mstate_eq(view(*final(self)), step_add(view(*old(self)), instr)),
//@end
//@fn src/runtime.rs "impl RunState" and props=C02
        ensures mstate_eq(view(*final(self)), step_and(view(*old(self)), instr)),
//@end
//@fn src/runtime.rs "impl RunState" br props=C02
        ensures mstate_eq(view(*final(self)), step_br(view(*old(self)), instr)),
//@end
//@fn src/runtime.rs "impl RunState" jmp props=C02
        ensures mstate_eq(view(*final(self)), step_jmp(view(*old(self)), instr)),
//@end
//@fn src/runtime.rs "impl RunState" jsr props=C02
        ensures mstate_eq(view(*final(self)), step_jsr(view(*old(self)), instr)),
//@end
//@fn src/runtime.rs "impl RunState" ld props=C02
        ensures mstate_eq(view(*final(self)), step_ld(view(*old(self)), instr)),
//@end
//@fn src/runtime.rs "impl RunState" ldi props=C02
        ensures mstate_eq(view(*final(self)), step_ldi(view(*old(self)), instr)),
//@end
//@fn src/runtime.rs "impl RunState" ldr props=C02
        ensures mstate_eq(view(*final(self)), step_ldr(view(*old(self)), instr)),
//@end
//@fn src/runtime.rs "impl RunState" lea props=C02
        ensures mstate_eq(view(*final(self)), step_lea(view(*old(self)), instr)),
//@end
//@fn src/runtime.rs "impl RunState" not props=C02
        ensures mstate_eq(view(*final(self)), step_not(view(*old(self)), instr)),
//@end
//@fn src/runtime.rs "impl RunState" rti props=C02
//@sub <<<verif_unreachable()>>> ==> <<<verif_todo_rti()>>>
        ensures false,   // RTI is `todo!()` (documented as unimplemented, outside the claim): accepted as divergence only here
//@end
//@fn src/runtime.rs "impl RunState" st props=C02
        ensures mstate_eq(view(*final(self)), step_st(view(*old(self)), instr)),
//@end
//@fn src/runtime.rs "impl RunState" sti props=C02
        ensures mstate_eq(view(*final(self)), step_sti(view(*old(self)), instr)),
//@end
//@fn src/runtime.rs "impl RunState" str props=C02
        ensures mstate_eq(view(*final(self)), step_str(view(*old(self)), instr)),
//@end

//@fn src/runtime.rs "impl RunState" trap props=C02,C03
//@exit 0xEE !trap_known(instr & 0xFFu16)
//@attr #[verifier::loop_isolation(false)]
//@sub <<<for offset in 0..=u16::MAX {
                    // Wrap at the top of memory, like all other address arithmetic
                    let addr = self.reg(0).wrapping_add(offset);
                    let chr_raw = self.mem(addr);
                    let chr_ascii>>> ==> <<<for offset in 0..=u16::MAX
                    invariant *self == *old(self),
                {
                    let addr = self.reg(0).wrapping_add(offset);
                    let chr_raw = self.mem(addr);
                    let chr_ascii>>>
//@sub <<<'string: for offset in 0..=u16::MAX {>>> ==> <<<'string: for offset in 0..=u16::MAX
                    invariant *self == *old(self),
                {>>>
//@sub <<<for chr in [chr_raw & 0xFF, chr_raw >> 8] {>>> ==> <<<let verif_arr = [chr_raw & 0xFF, chr_raw >> 8];
                    for verif_i in 0..2usize
                        invariant *self == *old(self),
                    {
                        let chr = verif_arr[verif_i];>>>
        requires instr >> 12u16 == 15,
        ensures
            match step_spec(view(*old(self)), instr, features::stack_spec()) {
                Step::Next(s) => mstate_eq(view(*final(self)), s),
                Step::Exit(c) => false,
                Step::Unspecified => only_r0_changed(view(*old(self)), view(*final(self))),
            },
//@end

//@fn src/runtime.rs "impl RunState" execute props=C02,C18
//@dispatch OP_TABLE
//@contract RunState_execute.c
//@end
}

// ---- the executable reference used by the Kani harness s_ext_complete is proved equal to the spec function
// props: C02
//@fn verif:kani/harness/ref_sext.rs - p2_ref ret=r props=C02
        ensures r as int == p2(n as int),
//@end
//@fn verif:kani/harness/ref_sext.rs - sext_ref ret=r props=C02
        requires 0 < bits < 16,
        ensures r == sext(v, bits as int),
//@end

/// the guards of the case-split twins of step_ref cover every instruction word
proof fn lemma_opcode_cases_exhaustive(i: u16)
    ensures (i >> 12u16) < 16,
{ assert((i >> 12u16) < 16) by (bit_vector); }

// ---- executable reference of the whole step oracle (used by the native differential enumeration verif_native_execute)
//@item verif:kani/harness/ref_step.rs struct RefState derive=
//@item verif:kani/harness/ref_step.rs enum RefStep derive=
spec fn rview(s: RefState) -> MState { MState { reg: s.reg@, mem: s.mem@, pc: s.pc, cc: s.cc, orig: 0, psr: 0 } }
//@fn verif:kani/harness/ref_step.rs - ref_cc ret=r props=C02
        ensures r == cc_of(v),
//@end
//@fn verif:kani/harness/ref_step.rs - ref_set_reg_cc props=C02
        requires dr < 8,
        ensures rview(*final(s)) == set_reg_cc(rview(*old(s)), dr as int, v), final(s).mem@.len() == old(s).mem@.len(),
//@end
//@fn verif:kani/harness/ref_step.rs - step_ref ret=r props=C02
//@cases i >> 12u16 == 0 | i >> 12u16 == 1 | i >> 12u16 == 2 | i >> 12u16 == 3 | i >> 12u16 == 4 | i >> 12u16 == 5 | i >> 12u16 == 6 | i >> 12u16 == 7 | i >> 12u16 == 8 | i >> 12u16 == 9 | i >> 12u16 == 10 | i >> 12u16 == 11 | i >> 12u16 == 12 | i >> 12u16 == 13 | i >> 12u16 == 14 | i >> 12u16 == 15
        requires old(s).mem@.len() == 65536,
        ensures
            final(s).mem@.len() == 65536,
            match step_spec(rview(*old(s)), i, stack_on) {
                Step::Next(t) => r is Next && mstate_eq(rview(*final(s)), t),
                Step::Exit(c) => r == RefStep::Exit(c as i32) && rview(*final(s)) == rview(*old(s)),
                Step::Unspecified => r is Unspecified && rview(*final(s)) == rview(*old(s)),
            },
//@end

} // verus!
fn main() {}
