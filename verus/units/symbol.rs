// U-SYM: src/symbol.rs — the symbol table operations, closure-lifted (R11)  (C04 C17 C19)
#![allow(unused)]
use vstd::prelude::*;
//@include shim.rs

verus! {
//@include common.rs
//@include symtab.rs

//@item src/symbol.rs enum Label derive=
//@item src/symbol.rs struct SrcOffset derive=Clone,Copy
//@item src/symbol.rs struct Span derive=Clone,Copy

// props: C04, C19
//@fn src/symbol.rs - reset_state props=C19
//@symtab
//@contract reset_state.c
//@end

impl Clone for Label {
    #[verifier::external_body]
    fn clone(&self) -> (r: Label) ensures r == *self { unimplemented!() }
}

impl Label {
//@fn src/symbol.rs "impl Label" insert ret=r props=C04,C17,C19
//@symtab
//@contract Label_insert.c
//@end
//@fn src/symbol.rs "impl Label" try_fill ret=r props=C01,C19
//@symtab
//@contract Label_try_fill.c
//@end
//@fn src/symbol.rs "impl Label" filled ret=r props=C01,C04,C19
//@symtab
//@contract Label_filled.c
//@end
}

impl Span {
//@fn src/symbol.rs "impl Span" new ret=r props=C17
//@contract Span_new.c
//@end
//@fn src/symbol.rs "impl Span" len ret=r props=C17
//@contract Span_len.c
//@end
//@fn src/symbol.rs "impl Span" offs ret=r props=C17
//@contract Span_offs.c
//@end
//@fn src/symbol.rs "impl Span" end ret=r props=C17,C05
//@contract Span_end.c
//@end
//@fn src/symbol.rs "impl Span" join ret=r props=C17,C05
//@contract Span_join.c
//@end
}

} // verus!
fn main() {}
