// U-RUN: src/runtime.rs RunEnvironment::run — the fetch/execute loop with and without the debugger  (C03 C09 C10 C16)
#![allow(unused)]
use vstd::prelude::*;
use std::cmp::Ordering;
//@include shim.rs

mod bv {
use vstd::prelude::*;
verus! {
pub broadcast proof fn lemma_and7(x: u16) ensures #[trigger] (x & 7u16) < 8 { assert((x & 7u16) < 8) by (bit_vector); }
pub broadcast proof fn lemma_u16_as_i32(x: u16) ensures #[trigger] (x as i32) as int == x as int { }
pub broadcast group group_bv { lemma_and7 }
}
}

mod features {
use vstd::prelude::*;
verus! {
pub uninterp spec fn stack_spec() -> bool;
#[verifier::external_body]
pub fn stack() -> (r: bool) ensures r == stack_spec() { unimplemented!() }
}
}

verus! {
//@include common.rs
//@include std_cmp.rs
//@include arith_spec.rs

//@item src/symbol.rs enum Register
//@item src/runtime.rs const USER_MEMORY_END
//@item src/runtime.rs const HALT_ADDRESS
//@item src/runtime.rs const MEMORY_MAX
//@item src/runtime.rs struct RunState derive=
//@item src/runtime.rs enum RunFlag derive=Clone,Copy
//@item src/debugger/breakpoint.rs struct Breakpoints derive=
//@item src/debugger/breakpoint.rs struct Breakpoint derive=Clone,Copy
//@item src/debugger/command/mod.rs enum Command derive=
//@item src/debugger/command/mod.rs enum Location derive=
//@item src/debugger/command/mod.rs enum MemoryLocation derive=
//@item src/debugger/command/mod.rs struct Label derive=
//@item src/debugger/mod.rs enum Status derive=
//@item src/debugger/mod.rs enum Action derive=
//@item src/debugger/mod.rs enum SignificantInstr derive=Clone,Copy,PartialEq,Eq,Structural
//@item src/debugger/mod.rs struct Debugger derive=
//@item src/runtime.rs struct RunEnvironment derive=

// R10 stand-ins for the two Debugger fields whose types are not part of this unit
struct AsmSource { orig: u16 }
impl AsmSource {
    fn orig(&self) -> (r: u16) ensures r == self.orig { self.orig }
}
#[verifier::external_body]
struct CommandReader { _opaque: u8 }

//@include bp_spec.rs
//@include dbg_spec.rs

broadcast use crate::bv::group_bv;

// ---- externals: I/O, the command reader, eval, the symbol table (each is an assumption listed in the evidence)
/// `Command::read_from(reader, error_printer)`: delivers the next command of the script or None at end of input
#[verifier::external_body]
fn read_command(r: &mut CommandReader) -> (c: Option<Command<'static>>)
    ensures
        remaining(*old(r)) > 0 ==> remaining(*final(r)) == remaining(*old(r)) - 1 && c == next_cmd(*old(r)) && last_cmd(*final(r)) == c,
        remaining(*old(r)) == 0 ==> remaining(*final(r)) == 0 && c is None && next_cmd(*old(r)) is None,
        c matches Some(cmd) ==> cmd_wf(cmd),
{ unimplemented!() }
#[verifier::external_body]
fn eval_ext(state: &mut RunState, line: &str)
    ensures final(state).orig == old(state).orig,   // execute never changes `orig` (U-RT frame)
{ unimplemented!() }
#[verifier::external_body]
fn resolve_symbol_address(label: &str) -> (r: Option<u16>) ensures r == sym_index(label@) { unimplemented!() }
#[verifier::external_body]
fn print_help_message() { }
#[verifier::external_body]
fn output_is_minimal() -> bool { unimplemented!() }

pub assume_specification<T, P: FnOnce(&T) -> bool> [Option::<T>::filter] (o: Option<T>, p: P) -> (r: Option<T>)
    requires o is Some ==> p.requires((&o->Some_0,)),
    ensures o is None ==> r is None,
            o is Some ==> (r is Some ==> r == o && p.ensures((&o->Some_0,), true)) && (r is None ==> p.ensures((&o->Some_0,), false));


//@include step_spec.rs

spec fn flag_cc(f: RunFlag) -> u16 {
    match f { RunFlag::N => 4u16, RunFlag::Z => 2u16, RunFlag::P => 1u16, RunFlag::Uninit => 0u16 }
}
spec fn view(s: RunState) -> MState {
    MState { reg: s.reg@, mem: s.mem@, pc: s.pc, cc: flag_cc(s.flag), orig: s.orig, psr: s._psr }
}

/// C03: `b` is what the reference machine makes of `a` in ONE instruction execution: fetch the word under the PC, increment the
/// PC, execute that word (step_spec is given the state with the PC already incremented, Appendix A)
spec fn is_ref_step(a: MState, b: MState, stack: bool) -> bool {
    a.pc < 0xFFFF && a.mem.len() == 65536
    && match step_spec(MState { pc: (a.pc + 1) as u16, ..a }, a.mem[a.pc as int], stack) {
        Step::Next(s) => mstate_eq(b, s),
        Step::Exit(c) => false,
        Step::Unspecified => only_r0_changed(MState { pc: (a.pc + 1) as u16, ..a }, b),
    }
}

// props: C03
/// the run loop's `self.state.execute(instr)`, with the obligation that THIS call completes one reference step begun at `before`
/// (the state when the instruction was fetched): the PC has been incremented by one, nothing else has changed, and the word
/// executed is the word that was under the PC. Anchored on call prefixes only, so that a change to the fetch / increment /
/// execute statements fails here instead of losing the anchor.
fn verif_ref_execute(Ghost(before): Ghost<RunState>, st: &mut RunState, instr: u16)
    requires
        before.pc < 0xFFFF, before.mem@.len() == 65536,
        view(*old(st)) == (MState { pc: (before.pc + 1) as u16, ..view(before) }),
        instr == before.mem@[before.pc as int],
    ensures
        is_ref_step(view(before), view(*final(st)), features::stack_spec()),
        final(st).orig == old(st).orig,
{
    st.execute(instr);
}

impl SignificantInstr {
//@fn src/debugger/mod.rs "impl TryFrom<u16> for SignificantInstr" try_from ret=r props=C10,C16,C09 assumed
//@sigsub <<<Result<Self, Self::Error>>>> ==> <<<core::result::Result<Self, ()>>>>
        ensures
            r.ok() == sig_spec(instr),
//@end
}

impl RunState {
//@fn src/runtime.rs "impl RunState" check_pc_bounds ret=r props=C03,C16
//@contract RunState_check_pc_bounds.c
//@end
//@fn src/runtime.rs "impl RunState" execute props=C03 assumed
//@contract RunState_execute.c
//@end
}

impl Debugger {
//@fn src/debugger/mod.rs "impl Debugger" next_action ret=r props=C09,C10,C16 assumed
//@contract Debugger_next_action.c
//@end
//@fn src/debugger/mod.rs "impl Debugger" increment_instruction_count props=C16 assumed
//@contract Debugger_increment_instruction_count.c
//@end
}

impl RunEnvironment {
//@fn src/runtime.rs "impl RunEnvironment" run props=C03,C09,C10,C16
//@attr #[verifier::exec_allows_no_decreases_clause]
//@sub <<<loop {
            if let Some(debugger) = &mut self.debugger {>>> ==> <<<loop
            invariant
                self.state.orig == old(self).state.orig,
                self.debugger matches Some(d) ==> dbg_wf(d) && self.state.orig == d.asm_source.orig && cb_fresh(d, self.state.pc),
            ensures
                self.state.pc == 0xFFFF,
        {
            let ghost dbg0 = self.debugger;
            if let Some(debugger) = &mut self.debugger {>>>
//@sub <<<== Ok(SignificantInstr::Halt)
                {
                    continue;>>> ==> <<<== Ok(SignificantInstr::Halt)
                {
                    // C16: an iteration that executes nothing must have consumed a command
                    proof { assert(remaining(debugger.command_reader) < remaining(dbg0->Some_0.command_reader)); }
                    continue;>>>
//@sub <<<!= Ordering::Equal {
                    continue;>>> ==> <<<!= Ordering::Equal {
                    // C16: an iteration that executes nothing must have consumed a command
                    proof { assert(remaining(debugger.command_reader) < remaining(dbg0->Some_0.command_reader)); }
                    continue;>>>
//@sub <<<let instr = >>> ==> <<<// C03: no instruction is ever fetched from outside [orig, 0xFE00)
            proof { assert(in_user(self.state.orig, self.state.pc as int)); }
            let ghost before = self.state;
            let instr = >>>
//@sub <<<self.state.execute(>>> ==> <<<verif_ref_execute(Ghost(before), &mut self.state, >>>
//@exit 0xEE self.state.pc != 0xFFFF && !in_user(self.state.orig, self.state.pc as int)
        requires
            old(self).debugger matches Some(d) ==> dbg_wf(d) && old(self).state.orig == d.asm_source.orig && d.current_breakpoint is None,
            old(self).state.orig <= 0xFFFF,
        ensures
            // the loop ends normally only at the halt sentinel, or through the debugger's `exit` command
            final(self).state.pc == 0xFFFF || final(self).debugger is Some,
//@end
}

} // verus!
fn main() {}
