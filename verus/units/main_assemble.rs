// U-MAIN: src/main.rs assemble() — what `check`/`watch` accept is exactly what `compile`/`run` can emit  (C07)
#![allow(unused)]
use vstd::prelude::*;
//@include shim.rs

verus! {
//@include common.rs
//@include arith_spec.rs
//@include symtab.rs
//@tpl parser_types.rs
//@include bp_spec.rs
//@include lines_spec.rs
//@include parse_spec.rs
//@include parser_helpers.rs
//@include enc_spec.rs
//@include air_spec.rs

/// R10: `StaticSource` (raw-pointer lifetime extension, unsafe) is opaque; `src()` hands out the text
#[verifier::external_body]
struct StaticSource { _opaque: u8 }
impl StaticSource {
    #[verifier::external_body]
    fn src(&self) -> &'static str { unimplemented!() }
}

impl AsmParser {
    /// lexer + preprocess (text layer: NOT deductively verified; bounded Kani check under C05). Assumed: a fresh parser over a
    /// stream free of whitespace/comment/eof tokens whose only directive tokens are `.orig`
    #[verifier::external_body]
    fn new(src: &'static str) -> (r: Result<AsmParser>)
        ensures r matches Ok(p) ==> pstream_ok(p) && p.line == 1 && p.air.ast@.len() == 0 && p.air.breakpoints.0@.len() == 0 && p.toks.pos() == 0,
    { unimplemented!() }

//@fn src/parser.rs "impl AsmParser" parse ret=r props=C07 assumed
//@symtab
//@contract AsmParser_parse.c
//@end
}

impl Air {
//@fn src/air.rs "impl Air" backpatch ret=r props=C07 assumed
//@symtab
//@contract Air_backpatch.c
//@end
}
impl AsmLine {
//@fn src/air.rs "impl AsmLine" emit ret=r props=C07 assumed
//@contract AsmLine_emit.c
//@end
}

//@fn src/main.rs - assemble ret=r props=C07
//@symtab
//@sub <<<lace::AsmParser::new(>>> ==> <<<AsmParser::new(>>>
//@sub <<<for stmt in &air {
        stmt.emit()?;
    }>>> ==> <<<for stmt in it: &air.ast
        invariant
            forall|j: int| 0 <= j < it.index@ ==> enc_spec(air.ast@[j].stmt, air.ast@[j].line) is Some,
            forall|j: int| 0 <= j < air.ast@.len() ==> stmt_labels_filled(#[trigger] air.ast@[j].stmt),
    {
        stmt.emit()?;
    }>>>
        ensures
            // C07: a source that `check` accepts can always be emitted (so `compile` and `run` accept it too)
            r matches Ok(air) ==> lines_ok(air.ast@) && air.ast@.len() <= 0xFFFF
                && forall|i: int| 0 <= i < air.ast@.len() ==> stmt_labels_filled(#[trigger] air.ast@[i].stmt)
                    && enc_spec(air.ast@[i].stmt, (i + 1) as u16) is Some,
//@end

} // verus!
fn main() {}
