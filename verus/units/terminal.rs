// U-TERM: src/debugger/command/reader/terminal.rs — the line editor's key handler  (property C20)
//
// Deductive part of C20: for EVERY key and EVERY editor state satisfying the representation invariant
// (history index in range, cursor between 0 and the number of characters of the focused line), the real
// `Terminal::handle_key` (a) does not panic (every `expect`, `assert!`, `-= 1`, `+= 1`, index is an obligation),
// (b) re-establishes the invariant, and (c) takes exactly the step of the plain reference editor `key_spec`
// written from the property over sequences of characters.  The real key loop `read_line_raw` is proved, with a ghost log of
// the keys read, to end exactly when the reference editor run over that log (run_keys) submits, holding its text: key
// sequences of ANY length.
// Assumed (listed in the evidence, each enumerated to a bound by engine N / Kani): the character-level meaning
// of the str helpers insert_char_index / remove_char_index / find_word_back / find_word_next and of
// `chars().count()` / `trim().is_empty()` (Verus cannot reason about str bytes).
#![allow(unused)]
use vstd::prelude::*;
//@include shim.rs

mod io {
use vstd::prelude::*;
verus! {
/// R10 stand-in: the handle is only written to by print_prompt (not part of this unit)
#[verifier::external_body]
pub struct Stderr { _opaque: u8 }
}
}

mod term {
use vstd::prelude::*;
verus! {
/// R10 stand-ins for src/term.rs: raw mode switches have no effect on the editor state; read_key delivers ANY key
#[verifier::external_body] pub fn enable_raw_mode() { unimplemented!() }
#[verifier::external_body] pub fn disable_raw_mode() { unimplemented!() }
#[verifier::external_body] pub fn read_key() -> crate::Key { unimplemented!() }
}
}

verus! {
//@include common.rs

/// R10 stand-in for std::fs::File (history file; only TerminalHistory::push/new touch it)
#[verifier::external_body]
struct File { _opaque: u8 }

//@item src/term.rs enum Key derive=
//@item src/debugger/command/reader/terminal.rs struct Terminal derive=
//@item src/debugger/command/reader/terminal.rs struct TerminalHistory derive=

// ------------------------------------------------------------------ the plain reference editor (from the property)
struct Ed {
    pub line: Seq<char>,        // the new line being typed
    pub cur: int,               // cursor, a CHARACTER index
    pub hist: Seq<Seq<char>>,   // history entries, oldest first
    pub idx: int,               // focused entry, hist.len() = the new line
}
spec fn ed_current(e: Ed) -> Seq<char> { if e.idx >= e.hist.len() { e.line } else { e.hist[e.idx] } }
/// the property's invariant: the cursor lies between 0 and the number of characters of the edited line
spec fn ed_wf(e: Ed) -> bool { 0 <= e.idx <= e.hist.len() && 0 <= e.cur <= ed_current(e).len() }
/// editing a focused history entry first copies it to the new line
spec fn ed_focus(e: Ed) -> Ed { if e.idx < e.hist.len() { Ed { line: e.hist[e.idx], idx: e.hist.len() as int, ..e } } else { e } }
/// whitespace-only line (str::trim().is_empty()); its character-level definition is not needed
uninterp spec fn blank(s: Seq<char>) -> bool;
/// word motions: the property fixes only their range, so their targets are left uninterpreted
uninterp spec fn word_back(s: Seq<char>, c: int) -> int;
uninterp spec fn word_next(s: Seq<char>, c: int) -> int;
spec fn is_control(ch: char) -> bool { ch as u32 <= 0x1f || ch as u32 == 0x7f }

/// what read_line does before the first key: an empty new line, cursor 0
spec fn fresh_line(e: Ed) -> Ed { Ed { line: Seq::empty(), cur: 0, ..e } }
/// one key of the reference editor: (state after, submitted?)
spec fn key_spec(e: Ed, k: Key) -> (Ed, bool) {
    match k {
        Key::Enter => if e.idx >= e.hist.len() && blank(e.line) { (Ed { line: Seq::empty(), cur: 0, ..e }, false) } else { (ed_focus(e), true) },
        Key::Char(ch) => if is_control(ch) { (e, false) } else {
            let f = ed_focus(e); (Ed { line: f.line.insert(f.cur, ch), cur: f.cur + 1, ..f }, false) },
        Key::Backspace => { let f = ed_focus(e);
            if f.cur > 0 && f.cur <= f.line.len() { (Ed { line: f.line.remove(f.cur - 1), cur: f.cur - 1, ..f }, false) } else { (f, false) } },
        Key::Delete => { let f = ed_focus(e);
            if f.cur < f.line.len() { (Ed { line: f.line.remove(f.cur), ..f }, false) } else { (f, false) } },
        Key::Left => (Ed { cur: if e.cur > 0 { e.cur - 1 } else { e.cur }, ..e }, false),
        Key::Right => (Ed { cur: if e.cur < ed_current(e).len() { e.cur + 1 } else { e.cur }, ..e }, false),
        Key::CtrlLeft => (Ed { cur: word_back(ed_current(e), e.cur), ..e }, false),
        Key::CtrlRight => (Ed { cur: word_next(ed_current(e), e.cur), ..e }, false),
        Key::Up => if e.idx > 0 { let g = Ed { idx: e.idx - 1, ..e }; (Ed { cur: ed_current(g).len() as int, ..g }, false) } else { (e, false) },
        Key::Down => if e.idx < e.hist.len() { let g = Ed { idx: e.idx + 1, ..e }; (Ed { cur: ed_current(g).len() as int, ..g }, false) } else { (e, false) },
    }
}

// ------------------------------------------------------------------ abstraction of the real Terminal
spec fn hist_view(l: Seq<String>) -> Seq<Seq<char>> { Seq::new(l.len(), |i: int| l[i]@) }
impl Terminal {
    spec fn ed(&self) -> Ed {
        Ed { line: self.buffer@, cur: self.visible_cursor as int, hist: hist_view(self.history.list@), idx: self.history.index as int }
    }
}

// ------------------------------------------------------------------ str helpers: character-level contracts ASSUMED
// (bounded stand-ins: engine N verif_native_handle_key / verif_native_word_motion, Kani count_chars_bytes_bounded)
/// byte length: deliberately unrelated to the number of characters (they differ once a multi-byte character is on the line)
pub uninterp spec fn byte_len(s: Seq<char>) -> int;
pub assume_specification [String::len] (s: &String) -> (r: usize) ensures r == byte_len(s@);
#[verifier::external_body]
fn verif_char_count(s: &str) -> (r: usize) ensures r == s@.len() { s.chars().count() }
#[verifier::external_body]
fn verif_blank(s: &String) -> (r: bool) ensures r == blank(s@) { s.trim().is_empty() }

//@fn src/debugger/command/reader/terminal.rs - count_chars_bytes ret=r props=C20 ext nobody
//@end
//@fn src/debugger/command/reader/terminal.rs - insert_char_index props=C20 ext nobody
    requires char_index <= old(string)@.len(),
    ensures final(string)@ == old(string)@.insert(char_index as int, ch),
            final(string)@.len() <= usize::MAX,   // a String never holds more than isize::MAX bytes, hence characters
//@end
//@fn src/debugger/command/reader/terminal.rs - remove_char_index ret=r props=C20 ext nobody
    requires char_index < old(string)@.len(),
    ensures final(string)@ == old(string)@.remove(char_index as int), r == old(string)@[char_index as int],
//@end
//@fn src/debugger/command/reader/terminal.rs - find_word_back ret=r props=C20 ext nobody
    requires cursor <= string@.len(),
    ensures r == word_back(string@, cursor as int), r <= string@.len(),
//@end
//@fn src/debugger/command/reader/terminal.rs - find_word_next ret=r props=C20 ext nobody
    requires cursor <= string@.len(),
    ensures r == word_next(string@, cursor as int), r <= string@.len(),
//@end

impl Terminal {
//@fn src/debugger/command/reader/terminal.rs "impl Terminal" is_next ret=r props=C20
        requires self.history.index <= self.history.list.len(),
        ensures r == (self.ed().idx >= self.ed().hist.len()),
//@end

//@fn src/debugger/command/reader/terminal.rs "impl Terminal" update_next props=C20
        requires old(self).history.index <= old(self).history.list.len(),
        ensures final(self).ed() == ed_focus(old(self).ed()),
                final(self).history.list == old(self).history.list,
                final(self).cursor == old(self).cursor,
//@end

//@fn src/debugger/command/reader/terminal.rs "impl Terminal" get_current ret=r props=C20
        requires self.history.index <= self.history.list.len(),
        ensures r@ == ed_current(self.ed()),
//@end

    /// stand-in for `if last != buffer { self.history.push(self.buffer.clone()) }` (history file I/O + String comparison):
    /// only the history list may grow, by the submitted line
    #[verifier::external_body]
    fn verif_push_if_new(&mut self)
        ensures final(self).buffer == old(self).buffer, final(self).cursor == old(self).cursor, final(self).visible_cursor == old(self).visible_cursor,
                final(self).history.index == old(self).history.index,
                final(self).history.list@ == old(self).history.list@ || final(self).history.list@ == old(self).history.list@.push(old(self).buffer),
    { unimplemented!() }

    /// drawing only: writes to stderr, the editor state is not touched (assumed; body is crossterm macros)
    #[verifier::external_body]
    fn print_prompt(&mut self)
        ensures final(self).ed() == old(self).ed(), final(self).history.list == old(self).history.list, final(self).cursor == old(self).cursor,
    { unimplemented!() }

//@fn src/debugger/command/reader/terminal.rs "impl Terminal" read_line_raw props=C20
//@attr #[verifier::exec_allows_no_decreases_clause]
//@sub <<<loop {>>> ==> <<<let ghost mut ks: Seq<Key> = Seq::empty();
        loop
            invariant_except_break
                run_keys(old(self).ed(), ks) == (self.ed(), false),
            invariant
                ed_wf(self.ed()),
                self.history.list == old(self).history.list,
                self.cursor == old(self).cursor,
            ensures
                run_keys(old(self).ed(), ks) == (self.ed(), true),
        {>>>
//@sub <<<let key = term::read_key();>>> ==> <<<let key = term::read_key();
            let ghost gk = key;
            let ghost before = self.ed();
            proof { lemma_run_keys_push(old(self).ed(), ks, gk); ks = ks.push(gk); }>>>
        requires ed_wf(old(self).ed()),
        ensures
            // the line handed on is what the reference editor holds after the same keys, for key sequences of ANY length
            exists|ks: Seq<Key>| run_keys(old(self).ed(), ks) == (final(self).ed(), true),
            ed_wf(final(self).ed()),
            final(self).history.list == old(self).history.list,
            final(self).cursor == old(self).cursor,
//@end

//@fn src/debugger/command/reader/terminal.rs "impl Terminal" read_line props=C20
//@sub <<<self.buffer.trim().is_empty()>>> ==> <<<verif_blank(&self.buffer)>>>
//@sub <<<self.read_line_raw();>>> ==> <<<let ghost start = self.ed();
        self.read_line_raw();
        proof {
            let ks = choose|ks: Seq<Key>| run_keys(start, ks) == (self.ed(), true);
            lemma_submitted_nonblank(start, ks);
            assert(start.line =~= Seq::<char>::empty());
            assert(start == fresh_line(old(self).ed()));
            assert(run_keys(fresh_line(old(self).ed()), ks).1 && self.buffer@ == run_keys(fresh_line(old(self).ed()), ks).0.line);
        }>>>
//@sub <<<if self
            .history
            .list
            .last()
            .is_none_or(|previous| previous != &self.buffer)
        {
            self.history.push(self.buffer.clone());
        }>>> ==> <<<self.verif_push_if_new();>>>
        // between lines the editor rests on the new line: this is what Terminal::new establishes and what read_line re-establishes
        requires old(self).history.index == old(self).history.list.len(),
                 // ASSUMED about the history file: no blank entries (read_line itself only ever pushes non-blank lines)
                 forall|i: int| 0 <= i < old(self).history.list@.len() ==> !blank(#[trigger] old(self).history.list@[i]@),
        ensures
            final(self).history.index == final(self).history.list.len(),
            // the line handed to the command splitter is what the reference editor, started on an empty line with the same
            // history, holds when it submits — for the keys actually read, however many
            exists|ks: Seq<Key>| #[trigger] run_keys(fresh_line(old(self).ed()), ks).1
                && final(self).buffer@ == run_keys(fresh_line(old(self).ed()), ks).0.line,
            final(self).cursor == old(self).cursor,
//@end

//@fn src/debugger/command/reader/terminal.rs "impl Terminal" handle_key ret=r props=C20
//@sub <<<self.buffer.trim().is_empty()>>> ==> <<<verif_blank(&self.buffer)>>>
//@subany <<<self.get_current().chars().count()>>> ==> <<<verif_char_count(self.get_current())>>>
        requires ed_wf(old(self).ed()),
        ensures
            ed_wf(final(self).ed()),
            final(self).ed() == key_spec(old(self).ed(), key).0,
            r == key_spec(old(self).ed(), key).1,
            // frame: the history list and the multi-command byte cursor are not touched by any key
            final(self).history.list == old(self).history.list,
            final(self).cursor == old(self).cursor,
//@end
}

// ------------------------------------------------------------------ sessions of any length (props: C20)
/// the reference editor run over a whole key sequence, stopping at the first submitting Enter
spec fn run_keys(e: Ed, ks: Seq<Key>) -> (Ed, bool)
    decreases ks.len(),
{
    if ks.len() == 0 { (e, false) } else {
        let (e1, done) = key_spec(e, ks[0]);
        if done { (e1, true) } else { run_keys(e1, ks.subrange(1, ks.len() as int)) }
    }
}
/// one more key after a run that has not submitted
proof fn lemma_run_keys_push(e: Ed, ks: Seq<Key>, k: Key)
    requires !run_keys(e, ks).1,
    ensures run_keys(e, ks.push(k)) == key_spec(run_keys(e, ks).0, k),
    decreases ks.len(),
{
    reveal_with_fuel(run_keys, 3);
    let kp = ks.push(k);
    if ks.len() == 0 {
        assert(kp[0] == k);
        assert(kp.subrange(1, kp.len() as int).len() == 0);
        assert(run_keys(e, ks) == (e, false));
    } else {
        let (e1, done) = key_spec(e, ks[0]);
        let tail = ks.subrange(1, ks.len() as int);
        assert(kp[0] == ks[0]);
        assert(kp.subrange(1, kp.len() as int) =~= tail.push(k));
        assert(!done);
        assert(run_keys(e, ks) == run_keys(e1, tail));
        lemma_run_keys_push(e1, tail, k);
        assert(run_keys(e, kp) == run_keys(e1, tail.push(k)));
    }
}
/// what the reference editor submits is never blank, as long as no history entry is
proof fn lemma_submitted_nonblank(e: Ed, ks: Seq<Key>)
    requires 0 <= e.idx <= e.hist.len(), forall|i: int| 0 <= i < e.hist.len() ==> !blank(#[trigger] e.hist[i]),
    ensures run_keys(e, ks).1 ==> !blank(run_keys(e, ks).0.line),
    decreases ks.len(),
{
    if ks.len() > 0 {
        let (e1, done) = key_spec(e, ks[0]);
        assert(e1.hist == e.hist && 0 <= e1.idx <= e1.hist.len());
        if !done { lemma_submitted_nonblank(e1, ks.subrange(1, ks.len() as int)); }
    }
}
/// the reference editor itself keeps the property's invariant, given the assumed range of the word motions
proof fn lemma_key_keeps_wf(e: Ed, k: Key)
    requires ed_wf(e),
             0 <= word_back(ed_current(e), e.cur) <= ed_current(e).len(),
             0 <= word_next(ed_current(e), e.cur) <= ed_current(e).len(),
    ensures ed_wf(key_spec(e, k).0),
{
}

} // verus!
fn main() {}
