// U-ENV: src/runtime.rs RunEnvironment::from_raw — image placement, size checks, initial machine  (C03 C06)
#![allow(unused)]
use vstd::prelude::*;
//@include shim.rs

verus! {
//@include common.rs
//@include arith_spec.rs
//@include step_spec.rs
//@include load_spec.rs

//@item src/runtime.rs const USER_MEMORY_END
//@item src/runtime.rs const HALT_ADDRESS
//@item src/runtime.rs const MEMORY_MAX
//@item src/runtime.rs struct RunEnvironment derive=
//@item src/runtime.rs struct RunState derive=
//@item src/runtime.rs enum RunFlag derive=Clone,Copy

/// R10: the debugger is opaque in this unit (from_raw only ever stores `None`)
#[verifier::external_body]
struct Debugger { _opaque: u8 }

spec fn flag_cc(f: RunFlag) -> u16 {
    match f { RunFlag::N => 4u16, RunFlag::Z => 2u16, RunFlag::P => 1u16, RunFlag::Uninit => 0u16 }
}
spec fn view(s: RunState) -> MState {
    MState { reg: s.reg@, mem: s.mem@, pc: s.pc, cc: flag_cc(s.flag), orig: s.orig, psr: s._psr }
}

/// R13: `mem[a..b].clone_from_slice(src)` — std behaviour assumed, its panics (range, length mismatch) as `requires`
#[verifier::external_body]
fn verif_copy_into(mem: &mut [u16; MEMORY_MAX], a: usize, b: usize, src: &[u16])
    requires a <= b <= MEMORY_MAX, src@.len() == b - a,
    ensures forall|i: int| 0 <= i < MEMORY_MAX ==> final(mem)@[i] == (if a <= i < b { src@[i - a] } else { old(mem)@[i] }),
{ mem[a..b].clone_from_slice(src) }

/// R13: `&raw[1..]`
#[verifier::external_body]
fn verif_tail(raw: &[u16]) -> (r: &[u16])
    requires raw@.len() >= 1,
    ensures r@ == raw@.subrange(1, raw@.len() as int),
{ &raw[1..] }

impl RunEnvironment {
//@fn src/runtime.rs "impl RunEnvironment" from_raw ret=r props=C03,C06
//@exit 0xEE !load_ok(raw@)
//@sub <<<let raw = &raw[1..];>>> ==> <<<let ghost image = raw@;
        let raw = verif_tail(raw);>>>
//@sub <<<mem[orig..orig + raw.len()].clone_from_slice(&raw);>>> ==> <<<verif_copy_into(&mut mem, orig, orig + raw.len(), raw);>>>
//@contract RunEnvironment_from_raw.c
//@end
}

} // verus!
fn main() {}
