// U-DBG: src/debugger/mod.rs — status machine, commands, address resolution  (C09 C10 C11 C12 C13 C16 C18)
#![allow(unused)]
use vstd::prelude::*;
use std::cmp::Ordering;
//@include shim.rs

mod bv {
use vstd::prelude::*;
verus! {
pub broadcast proof fn lemma_and7(x: u16) ensures #[trigger] (x & 7u16) < 8 { assert((x & 7u16) < 8) by (bit_vector); }
pub broadcast proof fn lemma_u16_as_i32(x: u16) ensures #[trigger] (x as i32) as int == x as int { }
pub broadcast group group_bv { lemma_and7 }
}
}

mod features {
use vstd::prelude::*;
verus! {
pub uninterp spec fn stack_spec() -> bool;
#[verifier::external_body]
pub fn stack() -> (r: bool) ensures r == stack_spec() { unimplemented!() }
}
}

verus! {
//@include common.rs
//@include std_extra.rs
//@include arith_spec.rs

//@item src/symbol.rs enum Register
//@item src/runtime.rs const USER_MEMORY_END
//@item src/runtime.rs const HALT_ADDRESS
//@item src/runtime.rs const MEMORY_MAX
//@item src/runtime.rs struct RunState derive=
//@item src/runtime.rs enum RunFlag derive=Clone,Copy
//@item src/debugger/breakpoint.rs struct Breakpoints derive=
//@item src/debugger/breakpoint.rs struct Breakpoint derive=Clone,Copy
//@item src/debugger/command/mod.rs enum Command derive=
//@item src/debugger/command/mod.rs enum Location derive=
//@item src/debugger/command/mod.rs enum MemoryLocation derive=
//@item src/debugger/command/mod.rs struct Label derive=
//@item src/debugger/mod.rs enum Status derive=
//@item src/debugger/mod.rs enum Action derive=
//@item src/debugger/mod.rs enum SignificantInstr derive=Clone,Copy,PartialEq,Eq,Structural
//@item src/debugger/mod.rs struct Debugger derive=

// R10 stand-ins for the two Debugger fields whose types are not part of this unit
struct AsmSource { orig: u16 }
impl AsmSource {
    fn orig(&self) -> (r: u16) ensures r == self.orig { self.orig }
    /// AsmSource::from (U-ASM) keeps the origin; the statement list and text are not part of this unit
    fn from(orig: u16, ast: AstStandIn, src: &'static str) -> (r: AsmSource) ensures r.orig == orig { AsmSource { orig } }
}
/// R10: `Vec<AsmLine>` is only passed through
#[verifier::external_body]
struct AstStandIn { _opaque: u8 }
//@item src/debugger/mod.rs struct Options derive=
impl CommandReader {
    #[verifier::external_body]
    fn from(argument: Option<String>) -> CommandReader { unimplemented!() }
}
impl Default for Status {
    /// `#[derive(Default)]` with `#[default] WaitForAction` (attribute checked by the anchor below)
    fn default() -> (r: Status) ensures r is WaitForAction { Status::WaitForAction }
}
#[verifier::external_body]
struct CommandReader { _opaque: u8 }

//@include bp_spec.rs
//@include dbg_spec.rs

broadcast use crate::bv::group_bv;

// ---- externals: I/O, the command reader, eval, the symbol table (each is an assumption listed in the evidence)
/// `Command::read_from(reader, error_printer)`: delivers the next command of the script or None at end of input
#[verifier::external_body]
fn read_command(r: &mut CommandReader) -> (c: Option<Command<'static>>)
    ensures
        remaining(*old(r)) > 0 ==> remaining(*final(r)) == remaining(*old(r)) - 1 && c == next_cmd(*old(r)) && last_cmd(*final(r)) == c,
        remaining(*old(r)) == 0 ==> remaining(*final(r)) == 0 && c is None && next_cmd(*old(r)) is None,
        c matches Some(cmd) ==> cmd_wf(cmd),
{ unimplemented!() }
#[verifier::external_body]
fn eval_ext(state: &mut RunState, line: &str)
    ensures final(state).orig == old(state).orig,   // execute never changes `orig` (U-RT frame)
{ unimplemented!() }
#[verifier::external_body]
fn resolve_symbol_address(label: &str) -> (r: Option<u16>) ensures r == sym_index(label@) { unimplemented!() }
#[verifier::external_body]
fn print_help_message() { }
#[verifier::external_body]
fn output_is_minimal() -> bool { unimplemented!() }

pub assume_specification<T, P: FnOnce(&T) -> bool> [Option::<T>::filter] (o: Option<T>, p: P) -> (r: Option<T>)
    requires o is Some ==> p.requires((&o->Some_0,)),
    ensures o is None ==> r is None,
            o is Some ==> (r is Some ==> r == o && p.ensures((&o->Some_0,), true)) && (r is None ==> p.ensures((&o->Some_0,), false));

//@fn src/debugger/mod.rs - is_call ret=r props=C10
        ensures r == is_call_spec(instr),
//@end

impl SignificantInstr {
//@fn src/debugger/mod.rs "impl TryFrom<u16> for SignificantInstr" try_from ret=r props=C10,C16,C09
//@sigsub <<<Result<Self, Self::Error>>>> ==> <<<core::result::Result<Self, ()>>>>
        ensures
            r.ok() == sig_spec(instr),
//@end
}

impl RunState {
//@fn src/runtime.rs "impl RunState" reg ret=r props=C13 ext
//@contract RunState_reg.c
//@end
//@fn src/runtime.rs "impl RunState" reg_mut ret=r props=C13 ext
//@contract RunState_reg_mut.c
//@end
//@fn src/runtime.rs "impl RunState" mem ret=r props=C13 ext
//@contract RunState_mem.c
//@end
//@fn src/runtime.rs "impl RunState" mem_mut ret=r props=C13 ext
//@contract RunState_mem_mut.c
//@end
//@fn src/runtime.rs "impl RunState" pc ret=r props=C13
        ensures r == self.pc,
//@end
//@fn src/runtime.rs "impl RunState" pc_mut ret=r props=C13
        ensures *r == old(self).pc, final(self).pc == *final(r),
            final(self).mem == old(self).mem, final(self).reg == old(self).reg, final(self).flag == old(self).flag,
            final(self).orig == old(self).orig, final(self)._psr == old(self)._psr,
//@end
//@fn src/runtime.rs "impl RunState" check_pc_bounds ret=r props=C03,C16
//@contract RunState_check_pc_bounds.c
//@end
    // `#[derive(Clone)]` on RunState (checked by tools/scan.py): structural clone
    #[verifier::external_body]
    fn clone(&self) -> (r: RunState) ensures r == *self { unimplemented!() }
}

impl Breakpoints {
//@fn src/debugger/breakpoint.rs "impl Breakpoints" get ret=r props=C11 assumed
//@contract Breakpoints_get.c
//@end
//@fn src/debugger/breakpoint.rs "impl Breakpoints" insert ret=r props=C11 assumed
//@contract Breakpoints_insert.c
//@end
//@fn src/debugger/breakpoint.rs "impl Breakpoints" remove ret=r props=C11 assumed
//@contract Breakpoints_remove.c
//@end
//@fn src/debugger/breakpoint.rs "impl Breakpoints" is_empty ret=r props=C11 assumed
//@contract Breakpoints_is_empty.c
//@end
}

impl Debugger {
    /// prints source context (reads only): R4 / external
    #[verifier::external_body]
    fn show_assembly_source(&self, state: &RunState, address: u16) { }

//@fn src/debugger/mod.rs "impl Debugger" new ret=r props=C12,C11,C10
//@sigsub <<<breakpoints: impl Into<Breakpoints>,>>> ==> <<<breakpoints: Breakpoints,>>>
//@sigsub <<<ast: Vec<AsmLine>,>>> ==> <<<ast: AstStandIn,>>>
//@sub <<<breakpoints: breakpoints.into(),>>> ==> <<<breakpoints: breakpoints, // `Into<Breakpoints> for Breakpoints` is the identity>>>
        ensures
            // C12: the saved initial machine is exactly the one handed in; the debugger starts paused, armed, with that table
            r.initial_state == initial_state, r.asm_source.orig == initial_state.pc,
            r.breakpoints == breakpoints, r.status is WaitForAction, r.current_breakpoint is None,
//@end

//@fn src/debugger/mod.rs "impl Debugger" orig ret=r props=C13
        requires self.asm_source.orig == self.initial_state.pc,
        ensures r == self.asm_source.orig,
//@end

//@fn src/debugger/mod.rs "impl Debugger" increment_instruction_count props=C16
//@contract Debugger_increment_instruction_count.c
//@end

//@fn src/debugger/mod.rs "impl Debugger" check_interrupts props=C11,C10,C16,C09
//@closure filter &Breakpoint bool
        requires dbg_wf(*old(self)), cb_fresh(*old(self), pc),
        ensures
            dbg_frame(*old(self), *final(self)), same_bps(*old(self), *final(self)),
            final(self).command_reader == old(self).command_reader,
            // a breakpoint at pc that is armed: pause. (`current_breakpoint` is NOT pinned down after this call: it is read only
            // here, and every call of next_action but the first follows an executed instruction, for which
            // increment_instruction_count guarantees None — so a change to how it is remembered cannot be seen. DESIGN 6.6)
            bp_hit(*old(self), pc) ==> final(self).status is WaitForAction,
            // HALT at pc always pauses
            // HALT inside user space always pauses (outside, next_action has paused already)
            in_user(old(self).asm_source.orig, pc as int) && !bp_hit(*old(self), pc) && instr == Some(SignificantInstr::Halt) ==> final(self).status is WaitForAction,
            // otherwise: no pause here
            !bp_hit(*old(self), pc) && instr != Some(SignificantInstr::Halt) ==> final(self).status == old(self).status,
            // the status is only ever changed to a pause
            final(self).status == old(self).status || final(self).status is WaitForAction,
//@end

//@fn src/debugger/mod.rs "impl Debugger" run_command ret=r props=C09,C10,C11,C12,C13,C16,C18
//@sub <<<Command::read_from(&mut self.command_reader, |error| {
            ();
            ();
        })>>> ==> <<<read_command(&mut self.command_reader)>>>
//@sub <<<eval::eval(state, instruction);>>> ==> <<<eval_ext(state, instruction);>>>
//@sub <<<Output::is_minimal()>>> ==> <<<output_is_minimal()>>>
//@sub <<<for breakpoint in &self.breakpoints {>>> ==> <<<for breakpoint in &self.breakpoints.0
            invariant true,   // (prints only: nothing to carry; marks the loop as annotated for the undecidability guard)
        {>>>
        requires
            old(self).status is WaitForAction,
            dbg_wf(*old(self)),
            old(state).orig == old(self).asm_source.orig,
        ensures
            dbg_wf(*final(self)),
            dbg_frame(*old(self), *final(self)),
            final(state).orig == old(state).orig,
            // exactly one command is consumed (end of input counts as `quit`)
            remaining(old(self).command_reader) > 0 ==> remaining(final(self).command_reader) == remaining(old(self).command_reader) - 1,
            remaining(old(self).command_reader) == 0 ==> remaining(final(self).command_reader) == 0 && r == Some(Action::StopDebugger),
            remaining(old(self).command_reader) > 0 ==> last_cmd(final(self).command_reader) == next_cmd(old(self).command_reader),
            remaining(old(self).command_reader) > 0 ==> cmd_wf(cmd_of(*old(self))),
            // a status other than waiting is exactly what the resuming command just read asks for
            !(final(self).status is WaitForAction) ==> remaining(old(self).command_reader) > 0 && is_resuming(cmd_of(*old(self)))
                && final(self).status == resume_status(cmd_of(*old(self)), *final(state)),
            // ---- per command (c = the command read)
            cmd_of(*old(self)) is Quit ==> r == Some(Action::StopDebugger) && *final(state) == *old(state) && same_ctl(*old(self), *final(self)),
            cmd_of(*old(self)) is Exit ==> r == Some(Action::ExitProgram) && *final(state) == *old(state) && same_ctl(*old(self), *final(self)),
            !(cmd_of(*old(self)) is Quit || cmd_of(*old(self)) is Exit) ==> r is None,
            // C09/C13: inspection commands change nothing
            is_readonly_cmd(cmd_of(*old(self))) ==> *final(state) == *old(state) && same_ctl(*old(self), *final(self)),
            // C12: reset restores the saved initial machine exactly
            cmd_of(*old(self)) is Reset ==> *final(state) == old(self).initial_state && same_ctl(*old(self), *final(self)),
            // C10: resuming commands only set the status; all four are refused at HALT
            cmd_of(*old(self)) is Continue ==> *final(state) == *old(state) && same_bps(*old(self), *final(self))
                && final(self).status == (if at_halt(*old(state)) { Status::WaitForAction } else { Status::Continue }),
            cmd_of(*old(self)) is StepOver ==> *final(state) == *old(state) && same_bps(*old(self), *final(self))
                && final(self).status == (if at_halt(*old(state)) { Status::WaitForAction } else { resume_status(Command::StepOver, *old(state)) }),
            cmd_of(*old(self)) matches Command::StepInto { count } ==> *final(state) == *old(state) && same_bps(*old(self), *final(self))
                && final(self).status == (if at_halt(*old(state)) { Status::WaitForAction } else { Status::StepInto { count: (count - 1) as u16 } }),
            // C18: `step out` is tied to the stack feature flag as coded
            cmd_of(*old(self)) is StepOut ==> *final(state) == *old(state) && same_bps(*old(self), *final(self))
                && final(self).status == (if !features::stack_spec() || at_halt(*old(state)) { Status::WaitForAction } else { Status::Finish }),
            // C13: move writes exactly the named register / user-space word, or is refused and changes nothing
            cmd_of(*old(self)) matches Command::Move { location: Location::Register(rg), value } ==>
                same_ctl(*old(self), *final(self)) && regs_only(*old(state), *final(state))
                && final(state).reg@ == old(state).reg@.update(rg as int, value),
            cmd_of(*old(self)) matches Command::Move { location: Location::Memory(l), value } ==>
                same_ctl(*old(self), *final(self)) && match target(*old(self), *old(state), l) {
                    Some(a) => mem_only(*old(state), *final(state)) && final(state).mem@ == old(state).mem@.update(a as int, value),
                    None => *final(state) == *old(state),
                },
            cmd_of(*old(self)) matches Command::Goto { location } ==>
                same_ctl(*old(self), *final(self)) && match target(*old(self), *old(state), location) {
                    Some(a) => pc_only(*old(state), *final(state)) && final(state).pc == a,
                    None => *final(state) == *old(state),
                },
            // eval may change the machine (U-EVAL), never the debugger's control state
            cmd_of(*old(self)) is Eval ==> same_ctl(*old(self), *final(self)),
            // C11/C13: break add/remove only with a user-space address, and change exactly that address
            cmd_of(*old(self)) matches Command::BreakAdd { location } ==> *final(state) == *old(state)
                && final(self).status == old(self).status
                && match target(*old(self), *old(state), location) {
                    Some(a) => forall|x: u16| bp_has(final(self).breakpoints.0@, x) <==> (bp_has(old(self).breakpoints.0@, x) || x == a),
                    None => same_bps(*old(self), *final(self)),
                },
            cmd_of(*old(self)) matches Command::BreakRemove { location } ==> *final(state) == *old(state)
                && final(self).status == old(self).status
                && match target(*old(self), *old(state), location) {
                    Some(a) => forall|x: u16| bp_has(final(self).breakpoints.0@, x) <==> (bp_has(old(self).breakpoints.0@, x) && x != a),
                    None => same_bps(*old(self), *final(self)),
                },
//@end

//@fn src/debugger/mod.rs "impl Debugger" next_action ret=r props=C09,C10,C11,C12,C16
//@sub <<<loop {
            match &mut self.status {>>> ==> <<<loop
            invariant
                dbg_wf(*self), dbg_frame(*old(self), *self), state.orig == old(state).orig,
                state.orig == self.asm_source.orig,
                instr == sig_spec(old(state).mem[old(state).pc as int]),
                remaining(self.command_reader) <= remaining(old(self).command_reader),
                // nothing consumed yet: machine untouched, status is the pre-status (or the StepOver-reached pause)
                !na_consumed(*old(self), *self) ==> *state == *old(state)
                    && (self.status == pre_status(*old(self), *old(state))
                        || (self.status is WaitForAction && stepover_reached(pre_status(*old(self), *old(state)), *old(state)))),
                // after a command: a non-waiting status was set by a resuming command that passed the HALT test on this state
                na_consumed(*old(self), *self) ==> self.status is WaitForAction || !at_halt(*state),
                // after a command: a non-waiting status is what the LAST command read asks for on the machine as it is now
                na_consumed(*old(self), *self) && !(self.status is WaitForAction) ==> (last_cmd(self.command_reader) matches Some(c)
                    && is_resuming(c) && cmd_wf(c) && self.status == resume_status(c, *state)),
                // commands are only ever read from a paused debugger
                na_consumed(*old(self), *self) ==> pre_status(*old(self), *old(state)) is WaitForAction
                    || stepover_reached(pre_status(*old(self), *old(state)), *old(state)),
            decreases remaining(self.command_reader), (if self.status is WaitForAction { 0int } else { 1int }),
        {
            match &mut self.status {>>>
//@contract Debugger_next_action.c
//@end

//@fn src/debugger/mod.rs "impl Debugger" check_halt ret=r props=C10
        ensures r is None <==> instr == Some(SignificantInstr::Halt),
//@end

//@fn src/debugger/mod.rs "impl Debugger" expect_userspace_address ret=r props=C13
        requires dbg_wf(*self),
        ensures r is Some <==> in_user(self.asm_source.orig, address as int),
//@end

//@fn src/debugger/mod.rs "impl Debugger" add_address_offset ret=r props=C13,C17
        requires dbg_wf(*self),
        ensures offs_ok(self.asm_source.orig, address as int, offset, r),
//@end

//@fn src/debugger/mod.rs "impl Debugger" resolve_pc_offset ret=r props=C13
        requires dbg_wf(*self),
        ensures offs_ok(self.asm_source.orig, pc as int, offset, r),
//@end

//@fn src/debugger/mod.rs "impl Debugger" resolve_label ret=r props=C13,C17
        requires dbg_wf(*self),
        ensures resolve_ok(self.asm_source.orig, 0, MemoryLocation::Label(*label), r),
//@end

//@fn src/debugger/mod.rs "impl Debugger" resolve_location ret=r props=C13,C17
        requires dbg_wf(*self),
        ensures resolve_ok(self.asm_source.orig, state.pc, *location, r),
//@end
}

} // verus!
fn main() {}
