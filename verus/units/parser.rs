// U-PARSE: src/parser.rs — token stream -> AIR  (C01 operand order & numbering, C04 ranges, C05 totality, C11 .break, C17 spans)
#![allow(unused)]
use vstd::prelude::*;
//@include shim.rs

mod bv {
use vstd::prelude::*;
verus! {
pub broadcast proof fn lemma_i16_as_u16(x: i16)
    ensures #[trigger] (x as u16) as int == (if x < 0 { x as int + 0x10000 } else { x as int })
{ assert((x as u16) as int == (if x < 0 { x as int + 0x10000 } else { x as int })) by (bit_vector); }
pub broadcast proof fn lemma_u16_as_i16(x: u16)
    ensures #[trigger] (x as i16) as int == (if x >= 0x8000 { x as int - 0x10000 } else { x as int })
{ assert((x as i16) as int == (if x >= 0x8000 { x as int - 0x10000 } else { x as int })) by (bit_vector); }
pub broadcast proof fn lemma_u16_as_u8(x: u16)
    ensures #[trigger] (x as u8) as int == x as int % 256
{ assert((x as u8) as int == x as int % 256) by (bit_vector); }
pub broadcast proof fn lemma_wrapping_add(a: u16, b: u16)
    ensures #[trigger] a.wrapping_add(b) as int == (a as int + b as int) % 0x10000
{ }
pub broadcast group group_bv { lemma_i16_as_u16, lemma_u16_as_i16, lemma_u16_as_u8, lemma_wrapping_add }
}
}

verus! {
//@include common.rs
//@include arith_spec.rs
//@include std_int.rs
//@include symtab.rs

//@item src/symbol.rs enum Register derive=Clone,Copy,PartialEq,Eq,Structural
//@item src/symbol.rs enum Flag derive=Clone,Copy,PartialEq,Eq,Structural
//@item src/symbol.rs enum Label derive=
//@item src/symbol.rs enum InstrKind derive=Clone,Copy,PartialEq,Eq,Structural
//@item src/symbol.rs enum TrapKind derive=Clone,Copy,PartialEq,Eq,Structural
//@item src/symbol.rs enum DirKind derive=Clone,Copy,PartialEq,Eq,Structural
//@item src/symbol.rs struct SrcOffset derive=Clone,Copy,PartialEq,Eq,Structural
//@item src/symbol.rs struct Span derive=Clone,Copy,PartialEq,Eq,Structural
//@item src/lexer/mod.rs struct Token derive=Clone,Copy
//@item src/lexer/mod.rs enum LiteralKind derive=Clone,Copy,PartialEq,Eq,Structural
//@item src/lexer/mod.rs enum TokenKind derive=Clone,Copy,PartialEq,Eq,Structural
//@item src/air.rs enum ImmediateOrReg derive=Clone,Copy
//@item src/air.rs struct RawWord derive=Clone,Copy
//@item src/air.rs enum AirStmt derive=
//@item src/air.rs struct AsmLine derive=
//@item src/debugger/breakpoint.rs struct Breakpoints derive=
//@item src/debugger/breakpoint.rs struct Breakpoint derive=Clone,Copy
//@item src/air.rs struct Air derive=
//@item src/parser.rs enum Bits derive=
//@item src/parser.rs struct AsmParser derive= tsub="Peekable<IntoIter<Token>>=>TokStream"

// R10 stand-in for Peekable<IntoIter<Token>>: an immutable token sequence plus a cursor (assumed iterator semantics)
pub struct TokStream { v: Vec<Token>, pos: usize }
impl TokStream {
    pub closed spec fn all(&self) -> Seq<Token> { self.v@ }
    pub closed spec fn pos(&self) -> int { if self.pos <= self.v.len() { self.pos as int } else { self.v.len() as int } }
    pub open spec fn rest(&self) -> Seq<Token> { self.all().skip(self.pos()) }
    pub proof fn lemma_pos(&self) ensures 0 <= self.pos() <= self.all().len() { }
    #[verifier::external_body]
    fn next(&mut self) -> (r: Option<Token>)
        ensures final(self).all() == old(self).all(),
                0 <= old(self).pos() <= old(self).all().len(),
                old(self).pos() == old(self).all().len() ==> r is None && final(self).pos() == old(self).pos(),
                old(self).pos() < old(self).all().len() ==> r == Some(old(self).all()[old(self).pos()]) && final(self).pos() == old(self).pos() + 1,
    { unimplemented!() }
    /// Peekable::peek returns Option<&Token>; the stand-in returns the (Copy) token by value, because a shared borrow
    /// out of a `&mut` call that is live across match guards makes this Verus version havoc the whole of `*self`
    #[verifier::external_body]
    fn peek(&mut self) -> (r: Option<Token>)
        ensures final(self).all() == old(self).all(), final(self).pos() == old(self).pos(),
                0 <= old(self).pos() <= old(self).all().len(),
                old(self).pos() == old(self).all().len() ==> r is None,
                old(self).pos() < old(self).all().len() ==> r == Some(old(self).all()[old(self).pos()]),
    { unimplemented!() }
}

//@include bp_spec.rs
//@include parse_spec.rs

broadcast use crate::bv::group_bv;

// ---- diagnostics (R5): constructors of crate::error; parse_generic_unexpected formats `found.kind` with Display
#[verifier::external_body] fn error_parse_generic_unexpected(src: &'static str, expected: &str, found: Token) -> Report
    requires displayable(found.kind) { Report }
#[verifier::external_body] fn error_parse_eof(src: &'static str) -> Report { Report }
#[verifier::external_body] fn error_parse_lit_range(span: Span, src: &'static str, bits: Bits) -> Report { Report }
#[verifier::external_body] fn error_parse_duplicate_label(span: Span, src: &'static str) -> Report { Report }
/// `format!("{expected}").as_str()`: Display for TokenKind must be defined for `expected`
#[verifier::external_body]
fn verif_display(k: TokenKind) -> (r: &'static str) requires displayable(k) { "" }

spec fn pframe(a: AsmParser, b: AsmParser) -> bool { b.src == a.src && b.air == a.air && b.line == a.line && b.toks.all() == a.toks.all() }
spec fn at_end(p: AsmParser) -> bool { p.toks.pos() >= p.toks.all().len() }
/// the token under the cursor
spec fn cur(p: AsmParser) -> Token { p.toks.all()[p.toks.pos()] }
/// n tokens were taken from the stream
spec fn advanced(a: AsmParser, b: AsmParser, n: int) -> bool { b.toks.pos() == a.toks.pos() + n && b.toks.pos() <= b.toks.all().len() && pframe(a, b) }
spec fn took(a: AsmParser, b: AsmParser) -> bool { !at_end(a) && advanced(a, b, 1) }
spec fn untouched(a: AsmParser, b: AsmParser) -> bool { advanced(a, b, 0) && b.tok_end == a.tok_end }
spec fn pstream_ok(p: AsmParser) -> bool { stream_ok(p.toks.all()) }

impl Span {
//@fn src/symbol.rs "impl Span" new ret=r props=C17 assumed
//@contract Span_new.c
//@end
//@fn src/symbol.rs "impl Span" len ret=r props=C17 assumed
//@contract Span_len.c
//@end
//@fn src/symbol.rs "impl Span" offs ret=r props=C17 assumed
//@contract Span_offs.c
//@end
//@fn src/symbol.rs "impl Span" end ret=r props=C17 assumed
//@contract Span_end.c
//@end
}

impl Label {
//@fn src/symbol.rs "impl Label" insert ret=r props=C04 assumed
//@symtab
//@contract Label_insert.c
//@end
//@fn src/symbol.rs "impl Label" try_fill ret=r props=C01 assumed
//@symtab
//@contract Label_try_fill.c
//@end
}

impl Breakpoints {
//@fn src/debugger/breakpoint.rs "impl Breakpoints" insert ret=r props=C11 assumed
//@contract Breakpoints_insert.c
//@end
}

impl Air {
//@fn src/air.rs "impl Air" set_orig ret=r props=C04 assumed
//@contract Air_set_orig.c
//@end
//@fn src/air.rs "impl Air" len ret=r props=C01 assumed
//@contract Air_len.c
//@end
//@fn src/air.rs "impl Air" add_stmt props=C01 assumed
//@contract Air_add_stmt.c
//@end
}

/// the guards of the case-split twins of parse_instr cover every instruction kind
proof fn lemma_instr_cases_exhaustive(kind: InstrKind)
    ensures kind is Push || kind is Pop || kind is Call || kind is Rets || kind is Add || kind is And || kind is Br || kind is Jmp
        || kind is Jsr || kind is Jsrr || kind is Ld || kind is Ldi || kind is Ldr || kind is Lea || kind is Not || kind is Ret
        || kind is Rti || kind is St || kind is Sti || kind is Str,
{ }

impl AsmParser {
    /// `&self.src[span.offs()..span.end()]` (str slicing: trusted; bounds are the lexer's obligation, C05 bounded part)
    #[verifier::external_body]
    fn get_span(&self, span: Span) -> (r: &str) ensures r@ == span_text(self.src, span) { unimplemented!() }

//@fn src/parser.rs "impl AsmParser" expect ret=r props=C04,C05,C17
//@sub <<<format!("{expected}").as_str()>>> ==> <<<verif_display(expected)>>>
//@sub <<<Some(tok) if tok.kind == expected => {>>> ==> <<<Some(tok) => if tok.kind == expected {>>>
//@sub <<<Some(unexpected) => {>>> ==> <<<else { let unexpected = tok; // R12c: guarded arm merged with the following arm of the same pattern>>>
        requires pstream_ok(*old(self)), displayable(expected),
        ensures
            at_end(*old(self)) ==> r is Err && untouched(*old(self), *final(self)),
            !at_end(*old(self)) ==> took(*old(self), *final(self)),
            r is Ok <==> (!at_end(*old(self)) && cur(*old(self)).kind == expected),
            r matches Ok(t) ==> t == cur(*old(self)) && final(self).tok_end == span_end(t.span),
            r is Err ==> final(self).tok_end == old(self).tok_end,
//@end

//@fn src/parser.rs "impl AsmParser" expect_where ret=r props=C04,C05,C17
//@sub <<<Some(tok) if check(&tok.kind) => {>>> ==> <<<Some(tok) => if check(&tok.kind) {>>>
//@sub <<<Some(unexpected) => {>>> ==> <<<else { let unexpected = tok; // R12c: guarded arm merged with the following arm of the same pattern>>>
        requires pstream_ok(*old(self)), forall|k: TokenKind| check.requires((&k,)),
        ensures
            at_end(*old(self)) ==> r is Err && untouched(*old(self), *final(self)),
            !at_end(*old(self)) ==> took(*old(self), *final(self)),
            r matches Ok(t) ==> !at_end(*old(self)) && t == cur(*old(self))
                && final(self).tok_end == span_end(t.span) && check.ensures((&t.kind,), true),
            r is Err ==> final(self).tok_end == old(self).tok_end
                && (!at_end(*old(self)) ==> check.ensures((&cur(*old(self)).kind,), false)),
//@end

//@fn src/parser.rs "impl AsmParser" expect_lit ret=r props=C04,C05,C01
//@sub <<<let check_range = |val| -> bool {>>> ==> <<<let check_range = |val: u16| -> (ok: bool)
            requires bits_ok(bits),
            ensures ok == fits(bits, val),
        {>>>
//@closure expect_where &TokenKind bool
        requires pstream_ok(*old(self)), bits_ok(bits),
        ensures
            at_end(*old(self)) ==> r is Err && untouched(*old(self), *final(self)),
            !at_end(*old(self)) ==> took(*old(self), *final(self)),
            // C04: accepted iff a numeric literal that fits the field
            r is Ok <==> (!at_end(*old(self)) && num_ok(cur(*old(self)), bits)),
            r matches Ok(v) ==> v == num_of(cur(*old(self))) && final(self).tok_end == span_end(cur(*old(self)).span),
//@end

//@fn src/parser.rs "impl AsmParser" expect_reg ret=r props=C01,C05
//@closure expect_where &TokenKind bool
        requires pstream_ok(*old(self)),
        ensures
            at_end(*old(self)) ==> r is Err && untouched(*old(self), *final(self)),
            !at_end(*old(self)) ==> took(*old(self), *final(self)),
            r is Ok <==> (!at_end(*old(self)) && is_reg(cur(*old(self)))),
            r matches Ok(reg) ==> reg == reg_of(cur(*old(self))) && final(self).tok_end == span_end(cur(*old(self)).span),
//@end

//@fn src/parser.rs "impl AsmParser" expect_lit_or_reg ret=r props=C01,C04,C05
//@sub <<<*tok,>>> ==> <<<tok,>>>
        requires pstream_ok(*old(self)),
        ensures
            pframe(*old(self), *final(self)),
            at_end(*old(self)) ==> r is Err,
            r is Ok <==> (!at_end(*old(self)) && (is_reg(cur(*old(self)))
                || (cur(*old(self)).kind is Lit && num_ok(cur(*old(self)), Bits::Signed(5))))),
            r matches Ok(x) ==> x == immreg_of(cur(*old(self))) && advanced(*old(self), *final(self), 1)
                && final(self).tok_end == span_end(cur(*old(self)).span),
//@end

//@fn src/parser.rs "impl AsmParser" expect_lit_or_label ret=r props=C01,C04,C05
//@symtab
//@sub <<<*tok,>>> ==> <<<tok,>>>
        requires pstream_ok(*old(self)), 1 <= bits <= 15,
        ensures
            pframe(*old(self), *final(self)), final(sym)@ == old(sym)@,
            at_end(*old(self)) ==> r is Err,
            r is Ok <==> (!at_end(*old(self)) && lbl_or_num_ok(cur(*old(self)), bits)),
            r matches Ok(l) ==> lbl_or_num_is(l, cur(*old(self)), old(self).line, old(self).src, old(sym)@)
                && advanced(*old(self), *final(self), 1)
                && final(self).tok_end == span_end(cur(*old(self)).span),
//@end

//@fn src/parser.rs "impl AsmParser" parse ret=r props=C01,C04,C05,C11,C17
//@symtab
//@sub <<<loop {
            let mut labeled_line = false;>>> ==> <<<loop
            invariant_except_break
                self_.line as int == self_.air.ast@.len() + 1,
            invariant
                stream_ok(self_.toks.all()), self_.toks.all() == self.toks.all(),
                self_.src == self.src,
                self_.air.ast@.len() <= 0xFFFF,
                self_.air.ast@.len() <= self_.line as int <= self_.air.ast@.len() + 1,
                table_grown(old(sym)@, sym@, (self_.air.ast@.len() + 1) as int),
                lines_ok(self_.air.ast@),
                bp_wf(self_.air.breakpoints.0@),
                forall|i: int| 0 <= i < self_.air.breakpoints.0@.len() ==> (#[trigger] self_.air.breakpoints.0@[i]).address as int <= self_.air.ast@.len(),
            decreases self_.toks.all().len() - self_.toks.pos(),
        {
            let mut labeled_line = false;>>>
        requires
            pstream_ok(self),
            self.line == 1, self.air.ast@.len() == 0, self.air.breakpoints.0@.len() == 0,
        ensures
            r matches Ok(air) ==> air_wf(air) && table_grown(old(sym)@, final(sym)@, (air.ast@.len() + 1) as int),
//@end

//@fn src/parser.rs "impl AsmParser" parse_simple ret=r props=C15,C05
//@symtab
        requires
            pstream_ok(*old(self)),
            // preprocess_simple never produces Byte / Breakpoint tokens
            forall|i: int| 0 <= i < old(self).toks.all().len() ==> !((#[trigger] old(self).toks.all()[i]).kind is Byte || old(self).toks.all()[i].kind is Breakpoint),
        ensures
            pframe(*old(self), *final(self)), final(sym)@ == old(sym)@,
            // exactly one well-formed instruction or trap, and nothing after it
            r matches Ok(st) ==> !(st is RawWord) && !at_end(*old(self)) && at_end(*final(self))
                && match cur(*old(self)).kind {
                    TokenKind::Instr(k) => accepts(k, old(self).toks.all().skip(old(self).toks.pos() + 1)) matches Some(n)
                        && stmt_ok(k, st, old(self).toks.all().skip(old(self).toks.pos() + 1), old(self).line, old(self).src, old(sym)@)
                        && old(self).toks.all().len() == old(self).toks.pos() + n + 1,
                    TokenKind::Trap(k) => st is Trap,
                    _ => false,
                },
//@end

//@fn src/parser.rs "impl AsmParser" parse_instr ret=r props=C01,C04,C05
//@cases kind is Push | kind is Pop | kind is Call | kind is Rets | kind is Add | kind is And | kind is Br | kind is Jmp | kind is Jsr | kind is Jsrr | kind is Ld | kind is Ldi | kind is Ldr | kind is Lea | kind is Not | kind is Ret | kind is Rti | kind is St | kind is Sti | kind is Str
//@symtab
//@sub <<<use crate::symbol::InstrKind;>>> ==> <<<>>>
        requires pstream_ok(*old(self)),
        ensures
            pframe(*old(self), *final(self)), final(sym)@ == old(sym)@,
            // C04: accepted exactly when every operand is of the right kind and fits its field
            accepts(kind, old(self).toks.rest()) is None ==> r is Err,
            // C01: operands in ISA order, taken from the consumed tokens
            accepts(kind, old(self).toks.rest()) matches Some(n) ==> (r matches Ok(st)
                && stmt_ok(kind, st, old(self).toks.rest(), old(self).line, old(self).src, old(sym)@)
                && advanced(*old(self), *final(self), n as int)
                // C17: the statement's text ends with its last operand
                && final(self).tok_end == (if n > 0 { span_end(old(self).toks.rest()[n - 1].span) } else { old(self).tok_end as int })),
//@end

//@fn src/parser.rs "impl AsmParser" parse_trap ret=r props=C01,C04,C05
        requires pstream_ok(*old(self)),
        ensures
            pframe(*old(self), *final(self)),
            trap_vector_spec(kind) matches Some(v) ==> r == Ok::<AirStmt, Report>((AirStmt::Trap { trap_vect: v })) && untouched(*old(self), *final(self)),
            kind is Generic ==> (r is Ok <==> (!at_end(*old(self)) && num_ok(cur(*old(self)), Bits::Unsigned(8)))),
            kind is Generic ==> (r matches Ok(s) ==> s == (AirStmt::Trap { trap_vect: low8(num_of(cur(*old(self)))) })
                && advanced(*old(self), *final(self), 1)
                && final(self).tok_end == span_end(cur(*old(self)).span)),
//@end

//@fn src/parser.rs "impl AsmParser" parse_byte ret=r props=C01
        ensures r == (AirStmt::RawWord { val: RawWord(val) }), *final(self) == *old(self),
//@end

//@fn src/parser.rs "impl AsmParser" optional_label ret=r props=C01,C05
//@sub <<<Some(tok) if tok.kind == TokenKind::Label => Some(self.toks.next().unwrap()),>>> ==> <<<Some(tok) => if tok.kind == TokenKind::Label { Some(self.toks.next().unwrap()) } else { None }, // R12c>>>
        requires pstream_ok(*old(self)),
        ensures
            pframe(*old(self), *final(self)), final(self).tok_end == old(self).tok_end,
            (!at_end(*old(self)) && cur(*old(self)).kind is Label) ==>
                r == Some(cur(*old(self))) && advanced(*old(self), *final(self), 1),
            !(!at_end(*old(self)) && cur(*old(self)).kind is Label) ==>
                r is None && advanced(*old(self), *final(self), 0),
//@end
}

} // verus!
fn main() {}
