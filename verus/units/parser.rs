// U-PARSE: src/parser.rs — token stream -> AIR  (C01 operand order & numbering, C04 ranges, C05 totality, C11 .break, C17 spans)
#![allow(unused)]
use vstd::prelude::*;
//@include shim.rs

mod bv {
use vstd::prelude::*;
verus! {
pub broadcast proof fn lemma_i16_as_u16(x: i16)
    ensures #[trigger] (x as u16) as int == (if x < 0 { x as int + 0x10000 } else { x as int })
{ assert((x as u16) as int == (if x < 0 { x as int + 0x10000 } else { x as int })) by (bit_vector); }
pub broadcast proof fn lemma_u16_as_i16(x: u16)
    ensures #[trigger] (x as i16) as int == (if x >= 0x8000 { x as int - 0x10000 } else { x as int })
{ assert((x as i16) as int == (if x >= 0x8000 { x as int - 0x10000 } else { x as int })) by (bit_vector); }
pub broadcast proof fn lemma_u16_as_u8(x: u16)
    ensures #[trigger] (x as u8) as int == x as int % 256
{ assert((x as u8) as int == x as int % 256) by (bit_vector); }
pub broadcast proof fn lemma_wrapping_add(a: u16, b: u16)
    ensures #[trigger] a.wrapping_add(b) as int == (a as int + b as int) % 0x10000
{ }
pub broadcast group group_bv { lemma_i16_as_u16, lemma_u16_as_i16, lemma_u16_as_u8, lemma_wrapping_add }
}
}

verus! {
//@include common.rs
//@include arith_spec.rs
//@include std_int.rs
//@include symtab.rs

//@tpl parser_types.rs
//@include bp_spec.rs
//@include lines_spec.rs
//@include parse_spec.rs

broadcast use crate::bv::group_bv;

// ---- diagnostics (R5): constructors of crate::error; parse_generic_unexpected formats `found.kind` with Display
#[verifier::external_body] fn error_parse_generic_unexpected(src: &'static str, expected: &str, found: Token) -> Report
    requires displayable(found.kind) { Report }
#[verifier::external_body] fn error_parse_eof(src: &'static str) -> Report { Report }
#[verifier::external_body] fn error_parse_lit_range(span: Span, src: &'static str, bits: Bits) -> Report { Report }
#[verifier::external_body] fn error_parse_duplicate_label(span: Span, src: &'static str) -> Report { Report }
/// `format!("{expected}").as_str()`: Display for TokenKind must be defined for `expected`
#[verifier::external_body]
fn verif_display(k: TokenKind) -> (r: &'static str) requires displayable(k) { "" }

//@include parser_helpers.rs

impl Span {
//@fn src/symbol.rs "impl Span" new ret=r props=C17 assumed
//@contract Span_new.c
//@end
//@fn src/symbol.rs "impl Span" len ret=r props=C17 assumed
//@contract Span_len.c
//@end
//@fn src/symbol.rs "impl Span" offs ret=r props=C17 assumed
//@contract Span_offs.c
//@end
//@fn src/symbol.rs "impl Span" end ret=r props=C17 assumed
//@contract Span_end.c
//@end
}

impl Label {
//@fn src/symbol.rs "impl Label" insert ret=r props=C04 assumed
//@symtab
//@contract Label_insert.c
//@end
//@fn src/symbol.rs "impl Label" try_fill ret=r props=C01 assumed
//@symtab
//@contract Label_try_fill.c
//@end
}

impl Breakpoints {
//@fn src/debugger/breakpoint.rs "impl Breakpoints" insert ret=r props=C11 assumed
//@contract Breakpoints_insert.c
//@end
}

impl Air {
//@fn src/air.rs "impl Air" set_orig ret=r props=C04 assumed
//@contract Air_set_orig.c
//@end
//@fn src/air.rs "impl Air" len ret=r props=C01 assumed
//@contract Air_len.c
//@end
//@fn src/air.rs "impl Air" add_stmt props=C01 assumed
//@contract Air_add_stmt.c
//@end
}

/// the guards of the case-split twins of parse_instr cover every instruction kind
proof fn lemma_instr_cases_exhaustive(kind: InstrKind)
    ensures kind is Push || kind is Pop || kind is Call || kind is Rets || kind is Add || kind is And || kind is Br || kind is Jmp
        || kind is Jsr || kind is Jsrr || kind is Ld || kind is Ldi || kind is Ldr || kind is Lea || kind is Not || kind is Ret
        || kind is Rti || kind is St || kind is Sti || kind is Str,
{ }

/// C01/C17: a prefix label is bound to the number of the statement it marks (the parser's current line)
fn verif_label_insert(Ghost(cur): Ghost<u16>, sym: &mut SymTab, label: &str, line: u16) -> (r: Result<()>)
    requires line == cur,
    ensures
        r is Err <==> old(sym)@.contains_key(label@),
        r is Ok ==> final(sym)@ == old(sym)@.insert(label@, line),
        r is Err ==> final(sym)@ == old(sym)@ || final(sym)@ == old(sym)@.insert(label@, line),
{ Label::insert(sym, label, line) }

impl AsmParser {
    /// `&self.src[span.offs()..span.end()]` (str slicing: trusted; bounds are the lexer's obligation, C05 bounded part)
    #[verifier::external_body]
    fn get_span(&self, span: Span) -> (r: &str) ensures r@ == span_text(self.src, span) { unimplemented!() }

//@fn src/parser.rs "impl AsmParser" expect ret=r props=C04,C05,C17
//@sub <<<format!("{expected}").as_str()>>> ==> <<<verif_display(expected)>>>
//@sub <<<Some(tok) if tok.kind == expected => {>>> ==> <<<Some(tok) => if tok.kind == expected {>>>
//@sub <<<Some(unexpected) => {>>> ==> <<<else { let unexpected = tok; // R12c: guarded arm merged with the following arm of the same pattern>>>
        requires pstream_ok(*old(self)), displayable(expected),
        ensures
            at_end(*old(self)) ==> r is Err && untouched(*old(self), *final(self)),
            !at_end(*old(self)) ==> took(*old(self), *final(self)),
            r is Ok <==> (!at_end(*old(self)) && cur(*old(self)).kind == expected),
            r matches Ok(t) ==> t == cur(*old(self)) && final(self).tok_end == span_end(t.span),
            r is Err ==> final(self).tok_end == old(self).tok_end,
//@end

//@fn src/parser.rs "impl AsmParser" expect_where ret=r props=C04,C05,C17
//@sub <<<Some(tok) if check(&tok.kind) => {>>> ==> <<<Some(tok) => if check(&tok.kind) {>>>
//@sub <<<Some(unexpected) => {>>> ==> <<<else { let unexpected = tok; // R12c: guarded arm merged with the following arm of the same pattern>>>
        requires pstream_ok(*old(self)), forall|k: TokenKind| check.requires((&k,)),
        ensures
            at_end(*old(self)) ==> r is Err && untouched(*old(self), *final(self)),
            !at_end(*old(self)) ==> took(*old(self), *final(self)),
            r matches Ok(t) ==> !at_end(*old(self)) && t == cur(*old(self))
                && final(self).tok_end == span_end(t.span) && check.ensures((&t.kind,), true),
            r is Err ==> final(self).tok_end == old(self).tok_end
                && (!at_end(*old(self)) ==> check.ensures((&cur(*old(self)).kind,), false)),
//@end

//@fn src/parser.rs "impl AsmParser" expect_lit ret=r props=C04,C05,C01
//@sub <<<let check_range = |val| -> bool {>>> ==> <<<let check_range = |val: u16| -> (ok: bool)
            requires bits_ok(bits),
            ensures ok == fits(bits, val),
        {>>>
//@sub <<<!self.get_span(tok.span).contains('-')>>> ==> <<<!tok_text_has_minus(self.src, tok)>>>
//@closure expect_where &TokenKind bool
        requires pstream_ok(*old(self)), bits_ok(bits),
        ensures
            at_end(*old(self)) ==> r is Err && untouched(*old(self), *final(self)),
            !at_end(*old(self)) ==> took(*old(self), *final(self)),
            // C04: accepted iff a numeric literal that fits the field
            r is Ok <==> (!at_end(*old(self)) && num_ok(cur(*old(self)), bits)),
            r matches Ok(v) ==> v == num_of(cur(*old(self))) && final(self).tok_end == span_end(cur(*old(self)).span),
//@end

//@fn src/parser.rs "impl AsmParser" expect_reg ret=r props=C01,C05
//@closure expect_where &TokenKind bool
        requires pstream_ok(*old(self)),
        ensures
            at_end(*old(self)) ==> r is Err && untouched(*old(self), *final(self)),
            !at_end(*old(self)) ==> took(*old(self), *final(self)),
            r is Ok <==> (!at_end(*old(self)) && is_reg(cur(*old(self)))),
            r matches Ok(reg) ==> reg == reg_of(cur(*old(self))) && final(self).tok_end == span_end(cur(*old(self)).span),
//@end

//@fn src/parser.rs "impl AsmParser" expect_lit_or_reg ret=r props=C01,C04,C05
//@sub <<<*tok,>>> ==> <<<tok,>>>
        requires pstream_ok(*old(self)),
        ensures
            pframe(*old(self), *final(self)),
            at_end(*old(self)) ==> r is Err,
            r is Ok <==> (!at_end(*old(self)) && (is_reg(cur(*old(self)))
                || (cur(*old(self)).kind is Lit && num_ok(cur(*old(self)), Bits::Signed(5))))),
            r matches Ok(x) ==> x == immreg_of(cur(*old(self))) && advanced(*old(self), *final(self), 1)
                && final(self).tok_end == span_end(cur(*old(self)).span),
//@end

//@fn src/parser.rs "impl AsmParser" expect_lit_or_label ret=r props=C01,C04,C05
//@symtab
//@sub <<<*tok,>>> ==> <<<tok,>>>
        requires pstream_ok(*old(self)), 1 <= bits <= 15,
        ensures
            pframe(*old(self), *final(self)), final(sym)@ == old(sym)@,
            at_end(*old(self)) ==> r is Err,
            r is Ok <==> (!at_end(*old(self)) && lbl_or_num_ok(cur(*old(self)), bits)),
            r matches Ok(l) ==> lbl_or_num_is(l, cur(*old(self)), old(self).line, old(self).src, old(sym)@)
                && advanced(*old(self), *final(self), 1)
                && final(self).tok_end == span_end(cur(*old(self)).span),
//@end

//@fn src/parser.rs "impl AsmParser" parse ret=r props=C01,C04,C05,C11,C17
//@symtab
//@sub <<<Label::insert(sym,>>> ==> <<<verif_label_insert(Ghost(self_.line), sym,>>>
//@sub <<<loop {
            let mut labeled_line = false;>>> ==> <<<loop
            invariant_except_break
                self_.line as int == self_.air.ast@.len() + 1,
            invariant
                stream_ok(self_.toks.all()), self_.toks.all() == self.toks.all(),
                self_.src == self.src,
                self_.air.ast@.len() <= 0xFFFF,
                self_.air.ast@.len() <= self_.line as int <= self_.air.ast@.len() + 1,
                table_grown(old(sym)@, sym@, (self_.air.ast@.len() + 1) as int),
                lines_ok(self_.air.ast@),
                bp_wf(self_.air.breakpoints.0@),
                forall|i: int| 0 <= i < self_.air.breakpoints.0@.len() ==> (#[trigger] self_.air.breakpoints.0@[i]).address as int <= self_.air.ast@.len(),
                // C01 "one word per statement": so far exactly one statement per instruction / trap / data token consumed
                0 <= self_.toks.pos() <= self_.toks.all().len(),
                self_.air.ast@.len() == count_heads(self_.toks.all(), self_.toks.pos() as int),
                // C17: every statement so far carries the span of its own tokens
                forall|i: int| 0 <= i < self_.air.ast@.len() ==> stmt_span_ok(self_.toks.all(), (#[trigger] self_.air.ast@[i]).span),
            ensures
                // the loop is left only when the token stream is exhausted
                self_.toks.pos() == self_.toks.all().len(),
            decreases self_.toks.all().len() - self_.toks.pos(),
        {
            proof { reveal_with_fuel(count_heads, 7); }
            let mut labeled_line = false;>>>
//@sub <<<if let Some(tok) = self_.toks.next() {>>> ==> <<<let ghost p0 = self_.toks.pos();
            if let Some(tok) = self_.toks.next() {>>>
//@sub <<<} else {
                if labeled_line {>>> ==> <<<proof {
                    // C17: the statement just added carries the span of its own tokens (head p0 .. last token consumed)
                    let all = self_.toks.all();
                    let sp = self_.air.ast@.last().span;
                    let k = if sp.offs.0 + sp.len == span_end(tok.span) { p0 } else { self_.toks.pos() - 1 };
                    assert(tok == all[p0]);
                    assert forall|m: int| p0 < m <= k implies !is_head(#[trigger] all[m]) by {
                        assert(all.skip(p0 + 1)[m - p0 - 1] == all[m]);
                    }
                    assert(stmt_span_at(all, sp, p0, k)) by { reveal(stmt_span_at); }
                    assert(stmt_span_ok(all, sp));
                }
            } else {
                if labeled_line {>>>
//@contract AsmParser_parse.c
//@end

//@fn src/parser.rs "impl AsmParser" parse_simple ret=r props=C15,C05
//@symtab
//@contract AsmParser_parse_simple.c
//@end

//@fn src/parser.rs "impl AsmParser" parse_instr ret=r props=C01,C04,C05
//@cases kind is Push | kind is Pop | kind is Call | kind is Rets | kind is Add | kind is And | kind is Br | kind is Jmp | kind is Jsr | kind is Jsrr | kind is Ld | kind is Ldi | kind is Ldr | kind is Lea | kind is Not | kind is Ret | kind is Rti | kind is St | kind is Sti | kind is Str
//@symtab
//@sub <<<use crate::symbol::InstrKind;>>> ==> <<<>>>
        requires pstream_ok(*old(self)),
        ensures
            pframe(*old(self), *final(self)), final(sym)@ == old(sym)@,
            // C04: accepted exactly when every operand is of the right kind and fits its field
            accepts(kind, old(self).toks.rest()) is None ==> r is Err,
            // C01: operands in ISA order, taken from the consumed tokens
            accepts(kind, old(self).toks.rest()) matches Some(n) ==> (r matches Ok(st)
                && stmt_ok(kind, st, old(self).toks.rest(), old(self).line, old(self).src, old(sym)@)
                && advanced(*old(self), *final(self), n as int)
                // the operand tokens are registers, literals and labels: none of them begins another statement
                && (forall|j: int| 0 <= j < n ==> !is_head(#[trigger] old(self).toks.rest()[j]))
                // C17: the statement's text ends with its last operand
                && final(self).tok_end == (if n > 0 { span_end(old(self).toks.rest()[n - 1].span) } else { old(self).tok_end as int })),
//@end

//@fn src/parser.rs "impl AsmParser" parse_trap ret=r props=C01,C04,C05
        requires pstream_ok(*old(self)),
        ensures
            pframe(*old(self), *final(self)),
            trap_vector_spec(kind) matches Some(v) ==> r == Ok::<AirStmt, Report>((AirStmt::Trap { trap_vect: v })) && untouched(*old(self), *final(self)),
            kind is Generic ==> (r is Ok <==> (!at_end(*old(self)) && num_ok(cur(*old(self)), Bits::Unsigned(8)))),
            kind is Generic ==> (r matches Ok(s) ==> s == (AirStmt::Trap { trap_vect: low8(num_of(cur(*old(self)))) })
                && advanced(*old(self), *final(self), 1)
                && final(self).tok_end == span_end(cur(*old(self)).span)),
//@end

//@fn src/parser.rs "impl AsmParser" parse_byte ret=r props=C01
        ensures r == (AirStmt::RawWord { val: RawWord(val) }), *final(self) == *old(self),
//@end

//@fn src/parser.rs "impl AsmParser" optional_label ret=r props=C01,C05
//@sub <<<Some(tok) if tok.kind == TokenKind::Label => Some(self.toks.next().unwrap()),>>> ==> <<<Some(tok) => if tok.kind == TokenKind::Label { Some(self.toks.next().unwrap()) } else { None }, // R12c>>>
        requires pstream_ok(*old(self)),
        ensures
            pframe(*old(self), *final(self)), final(self).tok_end == old(self).tok_end,
            (!at_end(*old(self)) && cur(*old(self)).kind is Label) ==>
                r == Some(cur(*old(self))) && advanced(*old(self), *final(self), 1),
            !(!at_end(*old(self)) && cur(*old(self)).kind is Label) ==>
                r is None && advanced(*old(self), *final(self), 0),
//@end
}

} // verus!
fn main() {}
