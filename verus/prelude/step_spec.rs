// ---- prelude/step_spec.rs : the instruction-step oracle (DESIGN Appendix A), written from the LC-3 ISA
// (Patt & Patel App. A) and README's stack extension — not from the code. PC is the already-incremented PC.
pub struct MState {
    pub reg: Seq<u16>,   // 8
    pub mem: Seq<u16>,   // 65536
    pub pc: u16,
    pub cc: u16,         // N=4 Z=2 P=1 none=0
    pub orig: u16,
    pub psr: u16,
}
pub enum Step { Next(MState), Exit(int), Unspecified }

pub open spec fn sext(v: u16, bits: int) -> u16 {
    let m = (v as int) % p2(bits);
    if m >= p2(bits - 1) { (m - p2(bits) + 0x10000) as u16 } else { m as u16 }
}
pub open spec fn dec16(a: u16) -> u16 { if a == 0 { 0xFFFFu16 } else { (a - 1) as u16 } }
pub open spec fn inc16(a: u16) -> u16 { if a == 0xFFFF { 0u16 } else { (a + 1) as u16 } }
pub open spec fn cc_of(v: u16) -> u16 { if v >= 0x8000 { 4u16 } else if v == 0 { 2u16 } else { 1u16 } }
/// 3-bit register field whose lowest bit is bit `lo` of the word
pub open spec fn rf(instr: u16, lo: u16) -> int { if lo == 0 { (instr & 7u16) as int } else { ((instr >> lo) & 7u16) as int } }

pub open spec fn set_reg_cc(s: MState, dr: int, v: u16) -> MState { MState { reg: s.reg.update(dr, v), cc: cc_of(v), ..s } }
pub open spec fn set_reg(s: MState, dr: int, v: u16) -> MState { MState { reg: s.reg.update(dr, v), ..s } }
pub open spec fn set_mem(s: MState, a: u16, v: u16) -> MState { MState { mem: s.mem.update(a as int, v), ..s } }
pub open spec fn set_pc(s: MState, pc: u16) -> MState { MState { pc: pc, ..s } }

pub open spec fn step_add(s: MState, i: u16) -> MState {
    let b = if i & 0x20u16 == 0 { s.reg[rf(i, 0)] } else { sext(i, 5) };
    set_reg_cc(s, rf(i, 9), add16(s.reg[rf(i, 6)], b))
}
pub open spec fn step_and(s: MState, i: u16) -> MState {
    let b = if i & 0x20u16 == 0 { s.reg[rf(i, 0)] } else { sext(i, 5) };
    set_reg_cc(s, rf(i, 9), s.reg[rf(i, 6)] & b)
}
pub open spec fn step_not(s: MState, i: u16) -> MState { set_reg_cc(s, rf(i, 9), !s.reg[rf(i, 6)]) }
pub open spec fn step_br(s: MState, i: u16) -> MState {
    if s.cc & ((i >> 9u16) & 7u16) != 0 { set_pc(s, add16(s.pc, sext(i, 9))) } else { s }
}
pub open spec fn step_jmp(s: MState, i: u16) -> MState { set_pc(s, s.reg[rf(i, 6)]) }
pub open spec fn step_jsr(s: MState, i: u16) -> MState {
    // tmp = PC; PC = target; R7 = tmp   (base register read BEFORE R7 is written)
    let target = if i & 0x800u16 == 0 { s.reg[rf(i, 6)] } else { add16(s.pc, sext(i, 11)) };
    set_pc(set_reg(s, 7, s.pc), target)
}
pub open spec fn step_ld(s: MState, i: u16) -> MState { set_reg_cc(s, rf(i, 9), s.mem[add16(s.pc, sext(i, 9)) as int]) }
pub open spec fn step_ldi(s: MState, i: u16) -> MState { set_reg_cc(s, rf(i, 9), s.mem[s.mem[add16(s.pc, sext(i, 9)) as int] as int]) }
pub open spec fn step_ldr(s: MState, i: u16) -> MState { set_reg_cc(s, rf(i, 9), s.mem[add16(s.reg[rf(i, 6)], sext(i, 6)) as int]) }
pub open spec fn step_lea(s: MState, i: u16) -> MState { set_reg_cc(s, rf(i, 9), add16(s.pc, sext(i, 9))) }
pub open spec fn step_st(s: MState, i: u16) -> MState { set_mem(s, add16(s.pc, sext(i, 9)), s.reg[rf(i, 9)]) }
pub open spec fn step_sti(s: MState, i: u16) -> MState { set_mem(s, s.mem[add16(s.pc, sext(i, 9)) as int], s.reg[rf(i, 9)]) }
pub open spec fn step_str(s: MState, i: u16) -> MState { set_mem(s, add16(s.reg[rf(i, 6)], sext(i, 6)), s.reg[rf(i, 9)]) }

/// PUSH v:  R7 -= 1; mem[R7] = v
pub open spec fn push_spec(s: MState, v: u16) -> MState {
    let sp = dec16(s.reg[7]);
    set_mem(set_reg(s, 7, sp), sp, v)
}
/// POP: value at mem[R7]; R7 += 1
pub open spec fn pop_state(s: MState) -> MState { set_reg(s, 7, inc16(s.reg[7])) }
pub open spec fn pop_value(s: MState) -> u16 { s.mem[s.reg[7] as int] }

pub open spec fn step_stack(s: MState, i: u16) -> MState {
    if i & 0x0800u16 != 0 {
        if i & 0x0400u16 != 0 {
            // CALL off10: push PC, PC += SEXT(off10)
            let t = push_spec(s, s.pc);
            set_pc(t, add16(s.pc, sext(i, 10)))
        } else {
            // RETS: PC = pop
            set_pc(pop_state(s), pop_value(s))
        }
    } else {
        if i & 0x0400u16 != 0 {
            // PUSH SR (old value of SR, also for R7)
            push_spec(s, s.reg[rf(i, 6)])
        } else {
            // POP DR: popped value wins, also for R7
            set_reg(pop_state(s), rf(i, 6), pop_value(s))
        }
    }
}
pub open spec fn trap_known(v: u16) -> bool { 0x20 <= v <= 0x27 }

pub open spec fn step_spec(s: MState, i: u16, stack_on: bool) -> Step {
    let op = i >> 12u16;
    if op == 0 { Step::Next(step_br(s, i)) }
    else if op == 1 { Step::Next(step_add(s, i)) }
    else if op == 2 { Step::Next(step_ld(s, i)) }
    else if op == 3 { Step::Next(step_st(s, i)) }
    else if op == 4 { Step::Next(step_jsr(s, i)) }
    else if op == 5 { Step::Next(step_and(s, i)) }
    else if op == 6 { Step::Next(step_ldr(s, i)) }
    else if op == 7 { Step::Next(step_str(s, i)) }
    else if op == 8 { Step::Unspecified }                    // RTI: outside the claim
    else if op == 9 { Step::Next(step_not(s, i)) }
    else if op == 10 { Step::Next(step_ldi(s, i)) }
    else if op == 11 { Step::Next(step_sti(s, i)) }
    else if op == 12 { Step::Next(step_jmp(s, i)) }
    else if op == 13 { if stack_on { Step::Next(step_stack(s, i)) } else { Step::Exit(1) } }
    else if op == 14 { Step::Next(step_lea(s, i)) }
    else {
        let v = i & 0xFFu16;
        if !trap_known(v) { Step::Exit(0xEE) }
        else if v == 0x25 { Step::Next(set_pc(s, 0xFFFFu16)) }   // HALT
        else if v == 0x20 || v == 0x23 { Step::Unspecified }    // GETC / IN: R0 := input (value outside the contract)
        else { Step::Next(s) }                                    // OUT PUTS PUTSP PUTN REG: output only
    }
}
/// GETC / IN: only R0 may change
pub open spec fn only_r0_changed(a: MState, b: MState) -> bool {
    b.mem =~= a.mem && b.pc == a.pc && b.cc == a.cc && b.orig == a.orig && b.psr == a.psr
    && b.reg.len() == 8 && (forall|k: int| 1 <= k < 8 ==> b.reg[k] == a.reg[k])
}
pub open spec fn mstate_eq(a: MState, b: MState) -> bool {
    a.reg =~= b.reg && a.mem =~= b.mem && a.pc == b.pc && a.cc == b.cc && a.orig == b.orig && a.psr == b.psr
}
