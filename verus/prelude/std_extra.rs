// ---- prelude/std_extra.rs : assumed specifications of small std helpers a refactor is likely to reach for,
// so that a semantically different rewrite is refuted instead of ending in "not supported" (exit 2).
pub assume_specification<T> [bool::then_some] (b: bool, t: T) -> (r: Option<T>)
    ensures r == (if b { Some(t) } else { None::<T> });
