// ---- prelude/std_extra.rs : assumed specifications of small std helpers a refactor is likely to reach for,
// so that a semantically different rewrite is refuted instead of ending in "not supported" (exit 2).
pub assume_specification<T> [bool::then_some] (b: bool, t: T) -> (r: Option<T>)
    ensures r == (if b { Some(t) } else { None::<T> });
// signed-offset helpers a refactoring of the address arithmetic may reach for (std's documented results)
pub assume_specification [u16::saturating_add_signed] (a: u16, b: i16) -> (r: u16)
    ensures r as int == (if a + b < 0 { 0int } else if a + b > 0xFFFF { 0xFFFFint } else { a + b });
