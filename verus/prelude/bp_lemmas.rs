// ---- prelude/bp_lemmas.rs : induction lemmas about the breakpoint list (used by U-BP only)
/// filtering out one address keeps the list sorted, removes exactly that address, and keeps every other entry
proof fn lemma_filter_bp(s: Seq<Breakpoint>, a: u16)
    requires bp_wf(s),
    ensures
        bp_wf(s.filter(bp_keep(a))),
        !bp_has(s.filter(bp_keep(a)), a),
        forall|x: u16| x != a ==> (bp_has(s.filter(bp_keep(a)), x) <==> bp_has(s, x)),
        forall|i: int| 0 <= i < s.filter(bp_keep(a)).len() ==> s.contains(#[trigger] s.filter(bp_keep(a))[i]),
        bp_has(s, a) <==> s.filter(bp_keep(a)).len() != s.len(),
        s.filter(bp_keep(a)).len() <= s.len(),
    decreases s.len(),
{
    reveal(Seq::filter);
    let f = s.filter(bp_keep(a));
    if s.len() == 0 {
    } else {
        let t = s.drop_last();
        let l = s.last();
        assert(bp_wf(t));
        lemma_filter_bp(t, a);
        let ft = t.filter(bp_keep(a));
        assert(forall|i: int| 0 <= i < ft.len() ==> ft[i].address < l.address) by {
            assert forall|i: int| 0 <= i < ft.len() implies ft[i].address < l.address by {
                assert(t.contains(ft[i]));
                let k = choose|k: int| 0 <= k < t.len() && t[k] == ft[i];
                assert(s[k] == t[k]);
                assert(s[s.len() - 1] == l);
            }
        }
        if bp_keep(a)(l) {
            assert(f =~= ft.push(l));
            assert forall|x: u16| x != a implies (bp_has(f, x) <==> bp_has(s, x)) by {
                if bp_has(s, x) {
                    let k = choose|k: int| 0 <= k < s.len() && s[k].address == x;
                    if k == s.len() - 1 { assert(f[f.len() - 1].address == x); }
                    else { assert(t[k].address == x); assert(bp_has(t, x)); assert(bp_has(ft, x));
                           let m = choose|m: int| 0 <= m < ft.len() && ft[m].address == x; assert(f[m].address == x); }
                }
                if bp_has(f, x) {
                    let k = choose|k: int| 0 <= k < f.len() && f[k].address == x;
                    if k == f.len() - 1 { assert(s[s.len() - 1].address == x); }
                    else { assert(ft[k].address == x); assert(bp_has(ft, x)); assert(bp_has(t, x));
                           let m = choose|m: int| 0 <= m < t.len() && t[m].address == x; assert(s[m].address == x); }
                }
            }
            assert forall|i: int| 0 <= i < f.len() implies s.contains(#[trigger] f[i]) by {
                if i == f.len() - 1 { assert(s[s.len() - 1] == f[i]); }
                else { assert(t.contains(ft[i])); let k = choose|k: int| 0 <= k < t.len() && t[k] == ft[i]; assert(s[k] == f[i]); }
            }
            assert(bp_has(s, a) <==> bp_has(t, a)) by {
                if bp_has(s, a) { let k = choose|k: int| 0 <= k < s.len() && s[k].address == a; assert(k != s.len() - 1); assert(t[k].address == a); }
                if bp_has(t, a) { let k = choose|k: int| 0 <= k < t.len() && t[k].address == a; assert(s[k].address == a); }
            }
            assert(!bp_has(f, a)) by {
                if bp_has(f, a) { let k = choose|k: int| 0 <= k < f.len() && f[k].address == a;
                    if k < ft.len() { assert(ft[k].address == a); assert(bp_has(ft, a)); } }
            }
        } else {
            assert(f =~= ft);
            assert(l.address == a);
            assert(s[s.len() - 1].address == a);
            assert(bp_has(s, a));
            assert forall|x: u16| x != a implies (bp_has(f, x) <==> bp_has(s, x)) by {
                if bp_has(s, x) { let k = choose|k: int| 0 <= k < s.len() && s[k].address == x; assert(k != s.len() - 1); assert(t[k].address == x); assert(bp_has(t, x)); }
                if bp_has(t, x) { let k = choose|k: int| 0 <= k < t.len() && t[k].address == x; assert(s[k].address == x); }
            }
            assert forall|i: int| 0 <= i < f.len() implies s.contains(#[trigger] f[i]) by {
                assert(t.contains(ft[i])); let k = choose|k: int| 0 <= k < t.len() && t[k] == ft[i]; assert(s[k] == f[i]);
            }
        }
    }
}

/// inserting at the position found by the scan keeps the list sorted and adds exactly that address
proof fn lemma_insert_bp(s: Seq<Breakpoint>, k: int, b: Breakpoint)
    requires
        bp_wf(s), 0 <= k <= s.len(),
        forall|j: int| 0 <= j < k ==> s[j].address < b.address,
        k < s.len() ==> s[k].address > b.address,
    ensures
        bp_wf(s.insert(k, b)),
        forall|a: u16| #![trigger bp_has(s.insert(k, b), a)] #![trigger bp_has(s, a)] bp_has(s.insert(k, b), a) <==> (bp_has(s, a) || a == b.address),
{
    let t = s.insert(k, b);
    assert forall|i: int, j: int| 0 <= i < j < t.len() implies t[i].address < t[j].address by {
        if j < k { assert(t[i] == s[i] && t[j] == s[j]); }
        else if j == k { assert(t[i] == s[i]); }
        else {
            assert(t[j] == s[j - 1]);
            if i < k { assert(t[i] == s[i]); if k < s.len() { assert(s[k].address <= s[j - 1].address); } }
            else if i == k { assert(s[k].address <= s[j - 1].address); }
            else { assert(t[i] == s[i - 1]); }
        }
    }
    assert forall|a: u16| bp_has(t, a) <==> (bp_has(s, a) || a == b.address) by {
        if bp_has(t, a) {
            let i = choose|i: int| 0 <= i < t.len() && t[i].address == a;
            if i < k { assert(s[i].address == a); } else if i > k { assert(s[i - 1].address == a); }
        }
        if bp_has(s, a) {
            let i = choose|i: int| 0 <= i < s.len() && s[i].address == a;
            if i < k { assert(t[i].address == a); } else { assert(t[i + 1].address == a); }
        }
        if a == b.address { assert(t[k].address == a); }
    }
}
