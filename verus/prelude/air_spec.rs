// ---- prelude/air_spec.rs : backpatching relation and AIR well-formedness
/// `b` is `a` with its label operand (if any) resolved through the table; everything else identical
spec fn with_label(s: AirStmt, l: Label) -> AirStmt {
    match s {
        AirStmt::Branch { flag, dest_label } => AirStmt::Branch { flag, dest_label: l },
        AirStmt::JumbSub { dest_label } => AirStmt::JumbSub { dest_label: l },
        AirStmt::Load { dest, src_label } => AirStmt::Load { dest, src_label: l },
        AirStmt::LoadInd { dest, src_label } => AirStmt::LoadInd { dest, src_label: l },
        AirStmt::LoadEAddr { dest, src_label } => AirStmt::LoadEAddr { dest, src_label: l },
        AirStmt::Store { src_reg, dest_label } => AirStmt::Store { src_reg, dest_label: l },
        AirStmt::StoreInd { src_reg, dest_label } => AirStmt::StoreInd { src_reg, dest_label: l },
        AirStmt::Call { dest_label } => AirStmt::Call { dest_label: l },
        other => other,
    }
}
spec fn resolved(l: Label, table: Map<Seq<char>, u16>) -> Option<Label> {
    match l {
        Label::Ref(v) => Some(Label::Ref(v)),
        Label::Unfilled(n) => if table.contains_key(n@) { Some(Label::Ref(table[n@])) } else { None },
    }
}
spec fn backpatched(a: AsmLine, b: AsmLine, table: Map<Seq<char>, u16>) -> bool {
    b.line == a.line && b.span == a.span && match stmt_label(a.stmt) {
        None => b.stmt == a.stmt,
        Some(l) => resolved(l, table) matches Some(rl) && b.stmt == with_label(a.stmt, rl),
    }
}
