// ---- prelude/parse_spec.rs : what the parser must accept and build (C01 operand order, C04 field ranges), from the
// property statements and the ISA; token stream = sequence of preprocessed tokens (R10 stand-in TokStream).
spec fn sign16(v: u16) -> int { if v >= 0x8000 { v as int - 0x10000 } else { v as int } }
/// C04: a literal is judged as the 16-bit value the lexer produced
spec fn fits(bits: Bits, v: u16) -> bool {
    match bits {
        Bits::Signed(n) => -p2(n as int - 1) <= sign16(v) < p2(n as int - 1),
        Bits::Unsigned(n) => 0 <= v as int && (v as int) < p2(n as int),
    }
}
spec fn bits_ok(bits: Bits) -> bool {
    match bits { Bits::Signed(n) => 1 <= n <= 15, Bits::Unsigned(n) => 1 <= n <= 16 }
}
/// token kinds whose Display is defined (used in diagnostics); whitespace/comment/eof never reach the parser
spec fn displayable(k: TokenKind) -> bool { !(k is Whitespace || k is Comment || k is Eof) }
spec fn tok_ok(t: Token) -> bool {
    displayable(t.kind) && (t.kind matches TokenKind::Dir(d) ==> d == DirKind::Orig) && t.span.offs.0 + t.span.len <= usize::MAX
}
spec fn stream_ok(s: Seq<Token>) -> bool { forall|i: int| 0 <= i < s.len() ==> tok_ok(#[trigger] s[i]) }
spec fn litval(k: TokenKind) -> Option<u16> {
    match k {
        TokenKind::Lit(LiteralKind::Dec(v)) => Some(v as u16),
        TokenKind::Lit(LiteralKind::Hex(v)) => Some(v),
        _ => None,
    }
}
spec fn span_end(s: Span) -> int { s.offs.0 + s.len }
/// the source text a span denotes (str slicing is trusted; the lexer decides the spans)
uninterp spec fn span_text(src: &'static str, s: Span) -> Seq<char>;

spec fn is_reg(t: Token) -> bool { t.kind is Reg }
spec fn reg_of(t: Token) -> Register { t.kind->Reg_0 }
/// the literal's text contains a minus sign (text -> token is the lexer's business: uninterpreted)
uninterp spec fn tok_has_minus(t: Token) -> bool;
/// a decimal the lexer stored wrapped into i16 (written as 32768..65535, no sign): it fits no signed field (F28)
spec fn dec_wrapped(t: Token) -> bool { t.kind matches TokenKind::Lit(LiteralKind::Dec(v)) && v < 0 && !tok_has_minus(t) }
spec fn num_ok(t: Token, bits: Bits) -> bool {
    litval(t.kind) matches Some(v) && fits(bits, v) && !(bits is Signed && dec_wrapped(t))
}
spec fn num_of(t: Token) -> u16 { litval(t.kind)->Some_0 }
spec fn low8(v: u16) -> u8 { (v as int % 256) as u8 }
spec fn immreg_of(t: Token) -> ImmediateOrReg {
    if is_reg(t) { ImmediateOrReg::Reg(reg_of(t)) } else { ImmediateOrReg::Imm5(low8(num_of(t))) }
}
spec fn label_is(l: Label, name: Seq<char>, table: Map<Seq<char>, u16>) -> bool {
    if table.contains_key(name) { l == Label::Ref(table[name]) } else { l matches Label::Unfilled(n) && n@ == name }
}
spec fn lbl_or_num_ok(t: Token, n: u8) -> bool { t.kind is Label || (t.kind is Lit && num_ok(t, Bits::Signed(n))) }
/// a literal PC offset k is represented as the statement number (line + 1 + k) mod 2^16, so that
/// dist16(that, line) == k
spec fn lbl_or_num_is(l: Label, t: Token, line: u16, src: &'static str, table: Map<Seq<char>, u16>) -> bool {
    if t.kind is Label { label_is(l, span_text(src, t.span), table) }
    else { l == Label::Ref(add16(add16(line, 1), num_of(t))) }
}

/// number of operand tokens consumed iff the operands are well-formed and in range (None = rejected)
spec fn accepts(kind: InstrKind, rest: Seq<Token>) -> Option<nat> {
    match kind {
        InstrKind::Push | InstrKind::Pop | InstrKind::Jmp | InstrKind::Jsrr =>
            if rest.len() >= 1 && is_reg(rest[0]) { Some(1nat) } else { None },
        InstrKind::Call => if rest.len() >= 1 && rest[0].kind is Label { Some(1nat) } else { None },
        InstrKind::Rets | InstrKind::Ret | InstrKind::Rti => Some(0nat),
        InstrKind::Add | InstrKind::And =>
            if rest.len() >= 3 && is_reg(rest[0]) && is_reg(rest[1]) && (is_reg(rest[2]) || (rest[2].kind is Lit && num_ok(rest[2], Bits::Signed(5)))) { Some(3nat) } else { None },
        InstrKind::Br(_) => if rest.len() >= 1 && lbl_or_num_ok(rest[0], 9) { Some(1nat) } else { None },
        InstrKind::Jsr => if rest.len() >= 1 && lbl_or_num_ok(rest[0], 11) { Some(1nat) } else { None },
        InstrKind::Ld | InstrKind::Ldi | InstrKind::Lea | InstrKind::St | InstrKind::Sti =>
            if rest.len() >= 2 && is_reg(rest[0]) && lbl_or_num_ok(rest[1], 9) { Some(2nat) } else { None },
        InstrKind::Ldr | InstrKind::Str =>
            if rest.len() >= 3 && is_reg(rest[0]) && is_reg(rest[1]) && num_ok(rest[2], Bits::Signed(6)) { Some(3nat) } else { None },
        InstrKind::Not => if rest.len() >= 2 && is_reg(rest[0]) && is_reg(rest[1]) { Some(2nat) } else { None },
    }
}
/// a token that begins a statement which occupies a word (every instruction, trap and data word is one statement; operands,
/// labels, `.orig` and `.break` are not)
spec fn is_head(t: Token) -> bool { t.kind is Instr || t.kind is Trap || t.kind is Byte }
/// number of statement-beginning tokens among the first `upto` tokens
spec fn count_heads(s: Seq<Token>, upto: int) -> nat
    decreases upto,
{
    if upto <= 0 { 0 } else { count_heads(s, upto - 1) + (if upto - 1 < s.len() && is_head(s[upto - 1]) { 1nat } else { 0nat }) }
}
/// C17: a statement's source text starts where its head token starts and ends where the last token consumed for it ends
/// (tokens j..=k of the stream, no other statement's head among them)
#[verifier::opaque]
spec fn stmt_span_at(toks: Seq<Token>, sp: Span, j: int, k: int) -> bool {
    0 <= j <= k < toks.len() && is_head(toks[j]) && sp.offs.0 == toks[j].span.offs.0
    && sp.offs.0 + sp.len == span_end(toks[k].span)
    && (forall|m: int| j < m <= k ==> !is_head(#[trigger] toks[m]))
}
spec fn stmt_span_ok(toks: Seq<Token>, sp: Span) -> bool { exists|j: int, k: int| stmt_span_at(toks, sp, j, k) }
/// the operand tokens an instruction accepts are registers, literals and labels: none of them begins a statement
proof fn lemma_operands_not_heads(kind: InstrKind, rest: Seq<Token>)
    requires accepts(kind, rest) is Some,
    ensures forall|j: int| 0 <= j < accepts(kind, rest)->Some_0 ==> !is_head(#[trigger] rest[j]),
{ }
/// the statement built from accepted operands: ISA operand order
spec fn stmt_ok(kind: InstrKind, s: AirStmt, rest: Seq<Token>, line: u16, src: &'static str, table: Map<Seq<char>, u16>) -> bool {
    match kind {
        InstrKind::Push => s == AirStmt::Push { src_reg: reg_of(rest[0]) },
        InstrKind::Pop => s == AirStmt::Pop { dest_reg: reg_of(rest[0]) },
        InstrKind::Call => s matches AirStmt::Call { dest_label } && label_is(dest_label, span_text(src, rest[0].span), table),
        InstrKind::Rets => s == AirStmt::Rets,
        InstrKind::Add => s == AirStmt::Add { dest: reg_of(rest[0]), src_reg: reg_of(rest[1]), src_reg_imm: immreg_of(rest[2]) },
        InstrKind::And => s == AirStmt::And { dest: reg_of(rest[0]), src_reg: reg_of(rest[1]), src_reg_imm: immreg_of(rest[2]) },
        InstrKind::Br(f) => s matches AirStmt::Branch { flag, dest_label } && flag == f && lbl_or_num_is(dest_label, rest[0], line, src, table),
        InstrKind::Jmp => s == AirStmt::Jump { src_reg: reg_of(rest[0]) },
        InstrKind::Jsr => s matches AirStmt::JumbSub { dest_label } && lbl_or_num_is(dest_label, rest[0], line, src, table),
        InstrKind::Jsrr => s == AirStmt::JumpSubReg { src_reg: reg_of(rest[0]) },
        InstrKind::Ld => s matches AirStmt::Load { dest, src_label } && dest == reg_of(rest[0]) && lbl_or_num_is(src_label, rest[1], line, src, table),
        InstrKind::Ldi => s matches AirStmt::LoadInd { dest, src_label } && dest == reg_of(rest[0]) && lbl_or_num_is(src_label, rest[1], line, src, table),
        InstrKind::Ldr => s == AirStmt::LoadOffs { dest: reg_of(rest[0]), src_reg: reg_of(rest[1]), offset: low8(num_of(rest[2])) },
        InstrKind::Lea => s matches AirStmt::LoadEAddr { dest, src_label } && dest == reg_of(rest[0]) && lbl_or_num_is(src_label, rest[1], line, src, table),
        InstrKind::Not => s == AirStmt::Not { dest: reg_of(rest[0]), src_reg: reg_of(rest[1]) },
        InstrKind::Ret => s == AirStmt::Return,
        InstrKind::Rti => s == AirStmt::Interrupt,
        InstrKind::St => s matches AirStmt::Store { src_reg, dest_label } && src_reg == reg_of(rest[0]) && lbl_or_num_is(dest_label, rest[1], line, src, table),
        InstrKind::Sti => s matches AirStmt::StoreInd { src_reg, dest_label } && src_reg == reg_of(rest[0]) && lbl_or_num_is(dest_label, rest[1], line, src, table),
        InstrKind::Str => s == AirStmt::StoreOffs { src_reg: reg_of(rest[0]), dest_reg: reg_of(rest[1]), offset: low8(num_of(rest[2])) },
    }
}
/// documented trap vectors
spec fn trap_vector_spec(kind: TrapKind) -> Option<u8> {
    match kind {
        TrapKind::Generic => None,
        TrapKind::Getc => Some(0x20u8), TrapKind::Out => Some(0x21u8), TrapKind::Puts => Some(0x22u8), TrapKind::In => Some(0x23u8),
        TrapKind::Putsp => Some(0x24u8), TrapKind::Halt => Some(0x25u8), TrapKind::Putn => Some(0x26u8), TrapKind::Reg => Some(0x27u8),
    }
}

/// labels defined by this assembly: previously present keys keep their value, new keys are statement numbers in [1, hi]
spec fn table_grown(t0: Map<Seq<char>, u16>, t1: Map<Seq<char>, u16>, hi: int) -> bool {
    forall|k: Seq<char>| #[trigger] t1.contains_key(k) ==> (t0.contains_key(k) && t1[k] == t0[k]) || (1 <= t1[k] as int <= hi)
}
/// what the parser hands to backpatching / emission / the loader
spec fn air_wf(air: Air) -> bool {
    lines_ok(air.ast@) && air.ast@.len() <= 0xFFFF && bp_wf(air.breakpoints.0@)
    && (forall|i: int| 0 <= i < air.breakpoints.0@.len() ==> (#[trigger] air.breakpoints.0@[i]).address as int <= air.ast@.len())
}
