// ---- prelude/enc_spec.rs : ISA-level encoding specification (DESIGN §3), written from the LC-3 ISA, not the code
spec fn rn(r: Register) -> u16 { r as u16 }

/// PC-relative field. Statement numbers are 1-based and address = origin + line - 1 (mod 2^16), so
/// target - (address + 1) = label_line - line - 1 (mod 2^16). Addresses wrap, hence the distance is that value
/// taken modulo 2^16 as a signed 16-bit quantity; it must fit the signed field, and is stored truncated to it.
#[verifier::opaque]
spec fn dist16(label_line: u16, line: u16) -> int {
    let m = (label_line as int - line as int - 1) % 0x10000;
    if m >= 0x8000 { m - 0x10000 } else { m }
}
#[verifier::opaque]
spec fn pcoff_spec(label_line: u16, line: u16, bits: int) -> Option<u16> {
    let d = dist16(label_line, line);
    if -p2(bits - 1) <= d < p2(bits - 1) {
        Some((if d >= 0 { d } else { d + p2(bits) }) as u16)
    } else {
        None
    }
}
spec fn lbl(l: Label) -> u16 { l->Ref_0 }
spec fn stmt_label(s: AirStmt) -> Option<Label> {
    match s {
        AirStmt::Branch { dest_label, .. } => Some(dest_label),
        AirStmt::JumbSub { dest_label } => Some(dest_label),
        AirStmt::Load { src_label, .. } => Some(src_label),
        AirStmt::LoadInd { src_label, .. } => Some(src_label),
        AirStmt::LoadEAddr { src_label, .. } => Some(src_label),
        AirStmt::Store { dest_label, .. } => Some(dest_label),
        AirStmt::StoreInd { dest_label, .. } => Some(dest_label),
        AirStmt::Call { dest_label } => Some(dest_label),
        _ => None,
    }
}
spec fn stmt_labels_filled(s: AirStmt) -> bool {
    stmt_label(s) matches Some(l) ==> l is Ref
}
spec fn flag_bits(f: Flag) -> u16 {
    match f { Flag::N => 4, Flag::Z => 2, Flag::P => 1, Flag::Nz => 6, Flag::Zp => 3, Flag::Np => 5, Flag::Nzp => 7 }
}
spec fn immreg_spec(x: ImmediateOrReg) -> u16 {
    match x { ImmediateOrReg::Reg(r) => rn(r), ImmediateOrReg::Imm5(v) => ((v as u16) & 0x1f) | 0x20 }
}
spec fn with_off(base: u16, o: Option<u16>) -> Option<u16> {
    match o { Some(w) => Some(base | w), None => None }
}
spec fn enc_spec(s: AirStmt, line: u16) -> Option<u16> {
    match s {
        AirStmt::Add { dest, src_reg, src_reg_imm } => Some(0x1000u16 | (rn(dest) << 9) | (rn(src_reg) << 6) | immreg_spec(src_reg_imm)),
        AirStmt::And { dest, src_reg, src_reg_imm } => Some(0x5000u16 | (rn(dest) << 9) | (rn(src_reg) << 6) | immreg_spec(src_reg_imm)),
        AirStmt::Branch { flag, dest_label } => with_off(0x0000u16 | (flag_bits(flag) << 9), pcoff_spec(lbl(dest_label), line, 9)),
        AirStmt::Jump { src_reg } => Some(0xC000u16 | (rn(src_reg) << 6)),
        AirStmt::JumbSub { dest_label } => with_off(0x4800u16, pcoff_spec(lbl(dest_label), line, 11)),
        AirStmt::JumpSubReg { src_reg } => Some(0x4000u16 | (rn(src_reg) << 6)),
        AirStmt::Load { dest, src_label } => with_off(0x2000u16 | (rn(dest) << 9), pcoff_spec(lbl(src_label), line, 9)),
        AirStmt::LoadInd { dest, src_label } => with_off(0xA000u16 | (rn(dest) << 9), pcoff_spec(lbl(src_label), line, 9)),
        AirStmt::LoadOffs { dest, src_reg, offset } => Some(0x6000u16 | (rn(dest) << 9) | (rn(src_reg) << 6) | ((offset as u16) & 0x3f)),
        AirStmt::LoadEAddr { dest, src_label } => with_off(0xE000u16 | (rn(dest) << 9), pcoff_spec(lbl(src_label), line, 9)),
        AirStmt::Not { dest, src_reg } => Some(0x9000u16 | (rn(dest) << 9) | (rn(src_reg) << 6) | 0x3f),
        AirStmt::Return => Some(0xC1C0u16),
        AirStmt::Interrupt => Some(0x8000u16),
        AirStmt::Store { src_reg, dest_label } => with_off(0x3000u16 | (rn(src_reg) << 9), pcoff_spec(lbl(dest_label), line, 9)),
        AirStmt::StoreInd { src_reg, dest_label } => with_off(0xB000u16 | (rn(src_reg) << 9), pcoff_spec(lbl(dest_label), line, 9)),
        AirStmt::StoreOffs { src_reg, dest_reg, offset } => Some(0x7000u16 | (rn(src_reg) << 9) | (rn(dest_reg) << 6) | ((offset as u16) & 0x3f)),
        AirStmt::Push { src_reg } => Some(0xD000u16 | 0x0400 | (rn(src_reg) << 6)),
        AirStmt::Pop { dest_reg } => Some(0xD000u16 | (rn(dest_reg) << 6)),
        AirStmt::Call { dest_label } => with_off(0xD000u16 | 0x0C00, pcoff_spec(lbl(dest_label), line, 10)),
        AirStmt::Rets => Some(0xD000u16 | 0x0800),
        AirStmt::RawWord { val } => Some(val.0),
        AirStmt::Trap { trap_vect } => Some(0xF000u16 | trap_vect as u16),
    }
}
/// result of an emitting function against the spec: Ok(w) exactly when the spec defines w, Err otherwise
spec fn enc_ok(r: Result<u16>, spec: Option<u16>) -> bool {
    match spec { Some(w) => r == Ok::<u16, Report>(w), None => r is Err }
}
