// ---- prelude/parser_helpers.rs : cursor/frame vocabulary for contracts over AsmParser
spec fn pframe(a: AsmParser, b: AsmParser) -> bool { b.src == a.src && b.air == a.air && b.line == a.line && b.toks.all() == a.toks.all() }
spec fn at_end(p: AsmParser) -> bool { p.toks.pos() >= p.toks.all().len() }
/// the token under the cursor
spec fn cur(p: AsmParser) -> Token { p.toks.all()[p.toks.pos()] }
/// n tokens were taken from the stream
spec fn advanced(a: AsmParser, b: AsmParser, n: int) -> bool { b.toks.pos() == a.toks.pos() + n && b.toks.pos() <= b.toks.all().len() && pframe(a, b) }
spec fn took(a: AsmParser, b: AsmParser) -> bool { !at_end(a) && advanced(a, b, 1) }
spec fn untouched(a: AsmParser, b: AsmParser) -> bool { advanced(a, b, 0) && b.tok_end == a.tok_end }
spec fn pstream_ok(p: AsmParser) -> bool { stream_ok(p.toks.all()) }

/// stand-in for `self.get_span(tok.span).contains('-')` (str search: outside Verus' reach; trusted to look at the token's text)
#[verifier::external_body]
fn tok_text_has_minus(src: &'static str, tok: Token) -> (r: bool)
    ensures r == tok_has_minus(tok),
{ unimplemented!() }
