// ---- prelude/arith_spec.rs
pub open spec fn add16(a: u16, b: u16) -> u16 { ((a as int + b as int) % 0x10000) as u16 }
