// ---- prelude/dbg_spec.rs : the debugger control oracle (DESIGN Appendix B), from the property statements
spec fn in_user(orig: u16, a: int) -> bool { orig as int <= a < 0xFE00 }

/// RET (JMP R7), RETS (0xD with bits 11:10 = 10) and HALT (TRAP x25)
spec fn sig_spec(instr: u16) -> Option<SignificantInstr> {
    let op = instr >> 12u16;
    if op == 0xC && (instr >> 6u16) & 7u16 == 7 { Some(SignificantInstr::Return) }
    else if op == 0xD && (instr >> 10u16) & 3u16 == 2 { Some(SignificantInstr::Return) }
    else if op == 0xF && instr & 0xFFu16 == 0x25 { Some(SignificantInstr::Halt) }
    else { None }
}
/// JSR / JSRR (opcode 4) and CALL (opcode 0xD, bits 11:10 = 11) — from the ISA and the extension's documentation
spec fn is_call_spec(w: u16) -> bool { w >> 12 == 4u16 || (w >> 12 == 0xDu16 && (w >> 10) & 3u16 == 3u16) }
spec fn at_halt(s: RunState) -> bool { sig_spec(s.mem[s.pc as int]) == Some(SignificantInstr::Halt) }

/// address arithmetic of `label+offset` and `^offset`: mathematical sum, accepted only inside user space
spec fn offs_spec(orig: u16, base: int, offset: i16) -> Option<u16> {
    let a = base + offset as int;
    if in_user(orig, a) { Some(a as u16) } else { None }
}
/// what the helpers may RETURN (C13 confines only writes; read-only commands may look anywhere, so a helper is free to resolve
/// an address outside user space as long as it is the mathematical sum): `Some(a)` only if a is exactly base + offset, `None`
/// only if that sum lies outside user space — never a wrapped or truncated address, never a refusal inside user space
spec fn offs_ok(orig: u16, base: int, offset: i16, r: Option<u16>) -> bool {
    match r { Some(a) => a as int == base + offset as int, None => !in_user(orig, base + offset as int) }
}
spec fn resolve_ok(orig: u16, pc: u16, loc: MemoryLocation, r: Option<u16>) -> bool {
    match loc {
        MemoryLocation::Address(a) => r == Some(a),
        MemoryLocation::PCOffset(o) => offs_ok(orig, pc as int, o, r),
        MemoryLocation::Label(l) => match sym_index(l.name@) {
            Some(i) => offs_ok(orig, i as int + orig as int, l.offset, r),
            None => r is None,
        },
    }
}
/// the (constant during a session) symbol table seen through resolve_symbol_address: name -> statement index
uninterp spec fn sym_index(name: Seq<char>) -> Option<u16>;
spec fn resolve_spec(orig: u16, pc: u16, loc: MemoryLocation) -> Option<u16> {
    match loc {
        MemoryLocation::Address(a) => Some(a),
        MemoryLocation::PCOffset(o) => offs_spec(orig, pc as int, o),
        MemoryLocation::Label(l) => match sym_index(l.name@) {
            Some(i) => offs_spec(orig, i as int + orig as int, l.offset),
            None => None,
        },
    }
}
/// assumption about the loaded program: every labelled statement has a 16-bit address (from_raw's size check;
/// a label is always followed by a statement)
spec fn sym_fits(orig: u16) -> bool { forall|n: Seq<char>| (#[trigger] sym_index(n)) matches Some(i) ==> i as int + orig as int <= 0xFFFF }

/// number of commands left in the (finite) script before end of input — ghost progress measure for C16
uninterp spec fn remaining(r: CommandReader) -> nat;
/// the command the next read will deliver (None = end of input)
uninterp spec fn next_cmd(r: CommandReader) -> Option<Command<'static>>;
/// the command the most recent read delivered (ghost history of the external reader; None before the first read)
uninterp spec fn last_cmd(r: CommandReader) -> Option<Command<'static>>;
/// guarantee of the command parser relied upon here: `step into` counts are clamped to >= 1
spec fn cmd_wf(c: Command) -> bool { c matches Command::StepInto { count } ==> count >= 1 }

spec fn dbg_wf(d: Debugger) -> bool {
    bp_wf(d.breakpoints.0@) && d.asm_source.orig == d.initial_state.pc && d.asm_source.orig == d.initial_state.orig
    && sym_fits(d.asm_source.orig)
}
/// the command run_command will execute: the next one of the script, `quit` at end of input
spec fn cmd_of(d: Debugger) -> Command<'static> {
    match next_cmd(d.command_reader) { Some(c) => c, None => Command::Quit }
}
spec fn is_readonly_cmd(c: Command) -> bool {
    c is Help || c is Registers || c is Echo || c is BreakList || c is Print || c is Assembly
}
/// fields of the debugger that only the named commands may touch
spec fn same_ctl(a: Debugger, b: Debugger) -> bool {
    b.status == a.status && b.breakpoints.0@ == a.breakpoints.0@
}
spec fn regs_only(a: RunState, b: RunState) -> bool {
    b.mem == a.mem && b.pc == a.pc && b.flag == a.flag && b.orig == a.orig && b._psr == a._psr
}
spec fn mem_only(a: RunState, b: RunState) -> bool {
    b.reg == a.reg && b.pc == a.pc && b.flag == a.flag && b.orig == a.orig && b._psr == a._psr
}
spec fn pc_only(a: RunState, b: RunState) -> bool {
    b.reg == a.reg && b.mem == a.mem && b.flag == a.flag && b.orig == a.orig && b._psr == a._psr
}
/// target of a mutating command: resolved and inside user space, else refused
spec fn target(d: Debugger, s: RunState, l: MemoryLocation) -> Option<u16> {
    match resolve_spec(d.asm_source.orig, s.pc, l) {
        Some(a) => if in_user(d.asm_source.orig, a as int) { Some(a) } else { None },
        None => None,
    }
}
/// everything of the debugger that no command may ever change
spec fn dbg_frame(a: Debugger, b: Debugger) -> bool {
    b.initial_state == a.initial_state && b.asm_source == a.asm_source
}
spec fn same_machine(a: RunState, b: RunState) -> bool { a == b }
spec fn same_bps(a: Debugger, b: Debugger) -> bool { b.breakpoints.0@ == a.breakpoints.0@ }

/// status after the bounds test and the interrupt test at the top of next_action (Appendix B steps 1-2)
spec fn bounds_status(d: Debugger, s: RunState) -> Status {
    if !in_user(d.asm_source.orig, s.pc as int) { Status::WaitForAction } else { d.status }
}
/// the remembered breakpoint cannot mask a breakpoint at `pc`: every call of next_action follows either the constructor, an
/// executed instruction (increment_instruction_count clears it) or a refusal to execute outside user space
spec fn cb_fresh(d: Debugger, pc: u16) -> bool { d.current_breakpoint is None || !in_user(d.asm_source.orig, pc as int) }
spec fn bp_hit(d: Debugger, pc: u16) -> bool { bp_has(d.breakpoints.0@, pc) && d.current_breakpoint != Some(pc) }
spec fn pre_status(d: Debugger, s: RunState) -> Status {
    if bp_hit(d, s.pc) || at_halt(s) { Status::WaitForAction } else { bounds_status(d, s) }
}
/// one instruction will be executed by the run loop after `Proceed`
spec fn will_execute(orig: u16, s: RunState) -> bool { in_user(orig, s.pc as int) && !at_halt(s) }

/// C10: the status with which next_action hands control back (Proceed) right after the resuming command `c` was read on
/// machine `s` — the instruction under the PC is the one on the machine AS IT IS NOW (after any goto / reset / move / eval)
spec fn after_resume(c: Command, s: RunState) -> Status {
    match c {
        Command::Continue => Status::Continue,
        // `step`: only a call is stepped over (the call itself is about to run: depth 1); anything else is ONE instruction
        Command::StepOver => if is_call_spec(s.mem[s.pc as int]) { Status::StepOver { return_addr: add16(s.pc, 1), depth: 1, by_jump: true } } else { Status::WaitForAction },
        Command::StepInto { count } => if count >= 2 { Status::StepInto { count: (count - 2) as u16 } } else { Status::WaitForAction },
        Command::StepOut => if sig_spec(s.mem[s.pc as int]) == Some(SignificantInstr::Return) { Status::WaitForAction } else { Status::Finish },
        _ => Status::WaitForAction,
    }
}
spec fn is_resuming(c: Command) -> bool { c is Continue || c is StepOver || c is StepInto || c is StepOut }
/// the status a resuming command leaves at the head of next_action's loop
spec fn resume_status(c: Command, s: RunState) -> Status {
    match c {
        Command::Continue => Status::Continue,
        Command::StepOver => if is_call_spec(s.mem[s.pc as int]) { Status::StepOver { return_addr: add16(s.pc, 1), depth: 0, by_jump: false } } else { Status::StepInto { count: 0 } },
        Command::StepInto { count } => Status::StepInto { count: (count - 1) as u16 },
        Command::StepOut => Status::Finish,
        _ => Status::WaitForAction,
    }
}
/// next_action consumed at least one command between a and b
spec fn na_consumed(a: Debugger, b: Debugger) -> bool { remaining(b.command_reader) < remaining(a.command_reader) }
/// C10 `step` over a call: the stepped call instruction (at return_addr - 1) may be executed again by deeper activations
/// (recursion through the same call site) — `depth` counts its open invocations; an invocation ends when control is
/// TRANSFERRED to the following address (by RET, RETS, JMP through any register, or a call — not by falling through or
/// branching there, which a skipped conditional call in a deeper activation does). The step is complete when the last open
/// invocation ends. (A callee's other calls and returns do not matter, nor how it returns.)
spec fn jumpish(w: u16) -> bool { w >> 12 == 0xCu16 || is_call_spec(w) || sig_spec(w) == Some(SignificantInstr::Return) }
spec fn sat_dec(d: u64) -> u64 { if d == 0 { 0 } else { (d - 1) as u64 } }
spec fn sat_inc(d: u64) -> u64 { if d == 0xFFFF_FFFF_FFFF_FFFF { d } else { (d + 1) as u64 } }
spec fn stepover_arrived(p: Status, s: RunState) -> bool { p matches Status::StepOver { return_addr, depth, by_jump } && s.pc == return_addr && by_jump }
spec fn stepover_reached(p: Status, s: RunState) -> bool {
    p matches Status::StepOver { return_addr, depth, by_jump } && s.pc == return_addr && by_jump && sat_dec(depth) == 0
}
/// the StepOver status handed back with Proceed when the step is not complete: one invocation closed if control was just
/// transferred to the return address, one opened if the stepped call instruction is about to run again
spec fn stepover_next(return_addr: u16, depth: u64, by_jump: bool, s: RunState) -> Status {
    let w = s.mem[s.pc as int];
    let d1 = if s.pc == return_addr && by_jump { sat_dec(depth) } else { depth };
    let d2 = if s.pc == add16(return_addr, 0xFFFF) && is_call_spec(w) { sat_inc(d1) } else { d1 };
    Status::StepOver { return_addr, depth: d2, by_jump: jumpish(w) }
}
