// ---- prelude/symtab.rs : R10/R11 stand-in for the thread-local `SYMBOL_TABLE: RefCell<FxHashMap<String, u16>>`.
// The table becomes an explicit `sym: &mut SymTab` parameter of every function that reaches it (rule R11); the
// map semantics of HashMap<String, _> (keys compared by content) are ASSUMED here, keyed by the label's characters.
#[verifier::external_body]
pub struct SymTab { _opaque: u8 }
impl SymTab {
    pub uninterp spec fn view(&self) -> Map<Seq<char>, u16>;

    #[verifier::external_body]
    pub fn insert(&mut self, k: String, v: u16) -> (r: Option<u16>)
        ensures final(self)@ == old(self)@.insert(k@, v),
            r == (if old(self)@.contains_key(k@) { Some(old(self)@[k@]) } else { None::<u16> }),
    { unimplemented!() }

    #[verifier::external_body]
    pub fn get(&self, k: &str) -> (r: Option<&u16>)
        ensures r matches Some(v) ==> self@.contains_key(k@) && *v == self@[k@],
            r is None ==> !self@.contains_key(k@),
    { unimplemented!() }

    #[verifier::external_body]
    pub fn clear(&mut self)
        ensures final(self)@ == Map::<Seq<char>, u16>::empty(),
    { unimplemented!() }
}
