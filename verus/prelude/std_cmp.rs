// ---- prelude/std_cmp.rs : assumed std behaviour — `==`/`!=` on core::cmp::Ordering is structural equality
pub assume_specification [<Ordering as PartialEq>::eq] (a: &Ordering, b: &Ordering) -> (r: bool) ensures r == (*a == *b);
