// ---- prelude/std_cmp.rs : (moved to common.rs so that every unit has it)
