// ---- prelude/bp_spec.rs : breakpoint list invariant (sorted by address, no duplicates) and its abstract view
spec fn bp_wf(s: Seq<Breakpoint>) -> bool {
    forall|i: int, j: int| 0 <= i < j < s.len() ==> s[i].address < s[j].address
}
spec fn bp_has(s: Seq<Breakpoint>, a: u16) -> bool {
    exists|i: int| 0 <= i < s.len() && #[trigger] s[i].address == a
}
spec fn bp_keep(a: u16) -> spec_fn(Breakpoint) -> bool { |b: Breakpoint| b.address != a }

