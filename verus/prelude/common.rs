// ---- prelude/common.rs : opaque diagnostics, diverging exits, assertion carriers (rules R5, R6, R7)
#[verifier::external_type_specification]
#[verifier::external_body]
pub struct ExReport(Report);

type Result<T> = core::result::Result<T, Report>;

/// R5: stands for the construction of any `miette::Report` (its text and rendering are not verified).
#[verifier::external_body]
fn verif_report() -> Report { Report }

/// R6: `panic!`, `unreachable!`, `todo!` — reaching one is a failed obligation.
#[verifier::external_body]
fn verif_unreachable() -> !
    requires false,
{ panic!() }

/// R6: `assert!` / `debug_assert!` — the condition is evaluated as written and must be provably true.
fn verif_assert(c: bool)
    requires c,
{ }

/// R7: `std::process::exit(code)` and the `exception!` macro (code 0xEE): modelled as divergence.
#[verifier::external_body]
fn verif_exit(code: i32) -> !
{ std::process::exit(code) }

/// small table-defined power of two, so that no recursion/fuel is needed for the widths used (<= 16)
pub open spec fn p2(n: int) -> int {
    if n <= 0 { 1 } else if n == 1 { 2 } else if n == 2 { 4 } else if n == 3 { 8 } else if n == 4 { 16 }
    else if n == 5 { 32 } else if n == 6 { 64 } else if n == 7 { 128 } else if n == 8 { 256 }
    else if n == 9 { 512 } else if n == 10 { 1024 } else if n == 11 { 2048 } else if n == 12 { 4096 }
    else if n == 13 { 8192 } else if n == 14 { 16384 } else if n == 15 { 32768 } else { 65536 }
}

// ---- assumed std behaviour — `==`/`!=` on core::cmp::Ordering is structural equality. In EVERY unit: without it Verus treats
// an `==`/`!=` on Ordering introduced by a harmless edit as an unknown boolean and reports a failed obligation (a false
// alarm met with refactoring C16-h2), not an unsupported construct.
pub assume_specification [<core::cmp::Ordering as PartialEq>::eq] (a: &core::cmp::Ordering, b: &core::cmp::Ordering) -> (r: bool) ensures r == (*a == *b);
