// ---- prelude/load_spec.rs : the loader oracle (DESIGN §3), from the statements of C03/C06
/// defined iff the image is non-empty and, placed at image[0] and followed by the implicit HALT, fits below 0x10000
pub open spec fn load_ok(image: Seq<u16>) -> bool { image.len() >= 1 && image[0] as int + image.len() <= 0x10000 }
pub open spec fn load_mem(image: Seq<u16>) -> Seq<u16> {
    Seq::new(65536, |a: int| {
        let o = image[0] as int;
        if o <= a < o + image.len() - 1 { image[a - o + 1] }
        else if a == o + image.len() - 1 { 0xF025u16 }
        else { 0u16 }
    })
}
pub open spec fn load_spec(image: Seq<u16>) -> MState {
    MState {
        reg: seq![0u16, 0u16, 0u16, 0u16, 0u16, 0u16, 0u16, 0xFDFFu16],
        mem: load_mem(image),
        pc: image[0], cc: 0u16, orig: image[0], psr: 0u16,
    }
}
