// ---- prelude/std_int.rs : assumed specifications of std integer helpers that vstd does not cover.
// `requires` = std's documented debug-build panic conditions.
pub assume_specification [u16::overflowing_sub] (a: u16, b: u16) -> (r: (u16, bool))
    ensures r.0 as int == (if a >= b { a - b } else { a - b + 0x10000 }), r.1 == (a < b);
pub assume_specification [i16::abs] (a: i16) -> (r: i16)
    requires a != i16::MIN,
    ensures r as int == (if a < 0 { -(a as int) } else { a as int });
pub assume_specification [i16::pow] (a: i16, n: u32) -> (r: i16)
    requires a == 2, n < 15,
    ensures r as int == p2(n as int);
pub assume_specification [u16::pow] (a: u16, n: u32) -> (r: u16)
    requires a == 2, n < 16,
    ensures r as int == p2(n as int);
pub assume_specification [i32::abs] (a: i32) -> (r: i32)
    requires a != i32::MIN,
    ensures r as int == (if a < 0 { -(a as int) } else { a as int });
pub assume_specification [i32::pow] (a: i32, n: u32) -> (r: i32)
    requires a == 2, n < 31,
    ensures n <= 16 ==> r as int == p2(n as int);
pub assume_specification [u32::pow] (a: u32, n: u32) -> (r: u32)
    requires a == 2, n < 32,
    ensures n <= 16 ==> r as int == p2(n as int);
