// ---- prelude/lines_spec.rs
/// statement i carries line number i+1 (what makes "label line - own line - 1" an address difference)
spec fn lines_ok(ast: Seq<AsmLine>) -> bool { forall|i: int| 0 <= i < ast.len() ==> (#[trigger] ast[i]).line as int == i + 1 }
