mod shim { pub struct Report; }
use shim::Report;
