//@item src/symbol.rs enum Register derive=Clone,Copy,PartialEq,Eq,Structural
//@item src/symbol.rs enum Flag derive=Clone,Copy,PartialEq,Eq,Structural
//@item src/symbol.rs enum Label derive=
//@item src/symbol.rs enum InstrKind derive=Clone,Copy,PartialEq,Eq,Structural
//@item src/symbol.rs enum TrapKind derive=Clone,Copy,PartialEq,Eq,Structural
//@item src/symbol.rs enum DirKind derive=Clone,Copy,PartialEq,Eq,Structural
//@item src/symbol.rs struct SrcOffset derive=Clone,Copy,PartialEq,Eq,Structural
//@item src/symbol.rs struct Span derive=Clone,Copy,PartialEq,Eq,Structural
//@item src/lexer/mod.rs struct Token derive=Clone,Copy
//@item src/lexer/mod.rs enum LiteralKind derive=Clone,Copy,PartialEq,Eq,Structural
//@item src/lexer/mod.rs enum TokenKind derive=Clone,Copy,PartialEq,Eq,Structural
//@item src/air.rs enum ImmediateOrReg derive=Clone,Copy
//@item src/air.rs struct RawWord derive=Clone,Copy
//@item src/air.rs enum AirStmt derive=
//@item src/air.rs struct AsmLine derive=
//@item src/debugger/breakpoint.rs struct Breakpoints derive=
//@item src/debugger/breakpoint.rs struct Breakpoint derive=Clone,Copy
//@item src/air.rs struct Air derive=
//@item src/parser.rs enum Bits derive=
//@item src/parser.rs struct AsmParser derive= tsub="Peekable<IntoIter<Token>>=>TokStream"

// R10 stand-in for Peekable<IntoIter<Token>>: an immutable token sequence plus a cursor (assumed iterator semantics)
pub struct TokStream { v: Vec<Token>, pos: usize }
impl TokStream {
    pub closed spec fn all(&self) -> Seq<Token> { self.v@ }
    pub closed spec fn pos(&self) -> int { if self.pos <= self.v.len() { self.pos as int } else { self.v.len() as int } }
    pub open spec fn rest(&self) -> Seq<Token> { self.all().skip(self.pos()) }
    pub proof fn lemma_pos(&self) ensures 0 <= self.pos() <= self.all().len() { }
    #[verifier::external_body]
    fn next(&mut self) -> (r: Option<Token>)
        ensures final(self).all() == old(self).all(),
                0 <= old(self).pos() <= old(self).all().len(),
                old(self).pos() == old(self).all().len() ==> r is None && final(self).pos() == old(self).pos(),
                old(self).pos() < old(self).all().len() ==> r == Some(old(self).all()[old(self).pos()]) && final(self).pos() == old(self).pos() + 1,
    { unimplemented!() }
    /// Peekable::peek returns Option<&Token>; the stand-in returns the (Copy) token by value, because a shared borrow
    /// out of a `&mut` call that is live across match guards makes this Verus version havoc the whole of `*self`
    #[verifier::external_body]
    fn peek(&mut self) -> (r: Option<Token>)
        ensures final(self).all() == old(self).all(), final(self).pos() == old(self).pos(),
                0 <= old(self).pos() <= old(self).all().len(),
                old(self).pos() == old(self).all().len() ==> r is None,
                old(self).pos() < old(self).all().len() ==> r == Some(old(self).all()[old(self).pos()]),
    { unimplemented!() }
}

