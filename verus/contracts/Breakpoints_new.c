        ensures r.0@.len() == 0, bp_wf(r.0@),
