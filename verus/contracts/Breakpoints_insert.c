        requires
            bp_wf(old(self).0@),
        ensures
            bp_wf(final(self).0@),
            r == bp_has(old(self).0@, breakpoint.address),
            r ==> final(self).0@ == old(self).0@,
            !r ==> exists|k: int| 0 <= k <= old(self).0@.len() && final(self).0@ == old(self).0@.insert(k, breakpoint),
            forall|a: u16| bp_has(final(self).0@, a) <==> (bp_has(old(self).0@, a) || a == breakpoint.address),
