        ensures r.line == line, r.stmt == stmt, r.span == span,
