        ensures r == self.orig,
