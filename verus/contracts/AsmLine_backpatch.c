        ensures
            final(sym)@ == old(sym)@,
            r is Ok ==> backpatched(*old(self), *final(self), old(sym)@) && stmt_labels_filled(final(self).stmt),
            // fails exactly when the statement references a label that is not defined
            r is Err <==> (stmt_label(old(self).stmt) matches Some(l) && resolved(l, old(sym)@) is None),
