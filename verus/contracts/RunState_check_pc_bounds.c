        ensures
            (r == Ordering::Equal) <==> (self.orig <= self.pc < USER_MEMORY_END),
            (r == Ordering::Less) <==> self.pc < self.orig,
