        ensures
            final(sym)@ == old(sym)@,
            old(sym)@.contains_key(label@) ==> r == Label::Ref(old(sym)@[label@]),
            !old(sym)@.contains_key(label@) ==> (r matches Label::Unfilled(n) && n@ == label@),
