        ensures
            final(sym)@ == old(sym)@,
            self is Ref ==> r == Ok::<Label, Report>(self),
            self matches Label::Unfilled(n) ==> ((old(sym)@.contains_key(n@) ==> r == Ok::<Label, Report>(Label::Ref(old(sym)@[n@])))
                && (!old(sym)@.contains_key(n@) ==> r is Err)),
