        ensures r == (self.0.len() == 0),
