        ensures
            r is Some <==> bp_has(self.0@, address),
            r matches Some(b) ==> b.address == address && self.0@.contains(b),
