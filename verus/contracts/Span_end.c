        requires self.offs.0 + self.len <= usize::MAX,
        ensures r == self.offs.0 + self.len,
