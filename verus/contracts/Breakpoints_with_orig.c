        requires
            bp_wf(self.0@),
            forall|i: int| 0 <= i < self.0@.len() ==> self.0@[i].address + orig <= 0xFFFF,
        ensures
            bp_wf(r.0@),
            r.0@.len() == self.0@.len(),
            forall|i: int| 0 <= i < self.0@.len() ==> r.0@[i].address == self.0@[i].address + orig
                && r.0@[i].is_predefined == self.0@[i].is_predefined,
