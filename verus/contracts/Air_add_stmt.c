        requires old(self).ast@.len() < 0xFFFF,    // so that `(len + 1) as u16` does not truncate
        ensures
            final(self).ast@ == old(self).ast@.push(AsmLine { line: (old(self).ast@.len() + 1) as u16, stmt: stmt, span: span }),
            final(self).orig == old(self).orig, final(self).breakpoints == old(self).breakpoints, final(self).src == old(self).src,
