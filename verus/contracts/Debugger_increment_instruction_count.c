        ensures
            final(self).instruction_count == (if old(self).instruction_count == u32::MAX { u32::MAX } else { (old(self).instruction_count + 1) as u32 }),
            dbg_frame(*old(self), *final(self)), final(self).status == old(self).status,
            final(self).breakpoints == old(self).breakpoints,
            // C11: the marked instruction is about to execute, so the breakpoint is armed again
            final(self).current_breakpoint is None,
            final(self).command_reader == old(self).command_reader,
