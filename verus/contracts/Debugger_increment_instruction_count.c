        ensures
            // (the counter itself is reporting only: its value is not pinned; that it cannot overflow is an implicit obligation)
            dbg_frame(*old(self), *final(self)), final(self).status == old(self).status,
            final(self).breakpoints == old(self).breakpoints,
            // C11: the marked instruction is about to execute, so the breakpoint is armed again
            final(self).current_breakpoint is None,
            final(self).command_reader == old(self).command_reader,
