        requires
            raw@.len() <= isize::MAX,   // slice type invariant (allocation size limit)
        ensures
            load_ok(raw@),
            r matches Ok(env) && mstate_eq(view(env.state), load_spec(raw@)) && env.debugger is None,
