        ensures
            match step_spec(view(*old(self)), instr, features::stack_spec()) {
                Step::Next(s) => mstate_eq(view(*final(self)), s),
                Step::Exit(c) => false,
                Step::Unspecified => only_r0_changed(view(*old(self)), view(*final(self))),
            },
