        requires self.offs.0 + self.len <= usize::MAX, other.offs.0 + other.len <= usize::MAX,
        ensures
            // minimal cover of both spans
            r.offs.0 == (if self.offs.0 <= other.offs.0 { self.offs.0 } else { other.offs.0 }),
            r.offs.0 + r.len == (if self.offs.0 + self.len >= other.offs.0 + other.len { self.offs.0 + self.len } else { other.offs.0 + other.len }),
