        ensures r == self.mem[addr as int],
