        ensures final(sym)@ == Map::<Seq<char>, u16>::empty(),
