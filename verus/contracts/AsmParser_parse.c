        requires
            pstream_ok(self),
            self.line == 1, self.air.ast@.len() == 0, self.air.breakpoints.0@.len() == 0,
        ensures
            r matches Ok(air) ==> air_wf(air) && table_grown(old(sym)@, final(sym)@, (air.ast@.len() + 1) as int),
