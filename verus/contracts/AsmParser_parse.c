        requires
            pstream_ok(self),
            self.line == 1, self.air.ast@.len() == 0, self.air.breakpoints.0@.len() == 0, self.toks.pos() == 0,
        ensures
            r matches Ok(air) ==> air_wf(air) && table_grown(old(sym)@, final(sym)@, (air.ast@.len() + 1) as int),
            // C01 "one word per statement": the program has exactly one statement per instruction / trap / data token of the stream —
            // none dropped, none processed twice (what each statement contains is the helpers' contracts)
            r matches Ok(air) ==> air.ast@.len() == count_heads(self.toks.all(), self.toks.all().len() as int),
            // C17: every statement's span is the text of its own tokens: from the start of its head token to the end of the last
            // token consumed for it
            r matches Ok(air) ==> forall|i: int| 0 <= i < air.ast@.len() ==> stmt_span_ok(self.toks.all(), (#[trigger] air.ast@[i]).span),
