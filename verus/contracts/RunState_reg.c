        requires reg < 8,
        ensures r == self.reg[reg as int],
