        requires
            dbg_wf(*old(self)),
            old(state).orig == old(self).asm_source.orig,
            cb_fresh(*old(self), old(state).pc),
        ensures
            dbg_wf(*final(self)), dbg_frame(*old(self), *final(self)),
            final(state).orig == old(state).orig,
            remaining(final(self).command_reader) <= remaining(old(self).command_reader),
            // ---- C10: the status machine, when no command is needed: exact transition, machine untouched, Proceed
            pre_status(*old(self), *old(state)) matches Status::StepInto { count } ==>
                r is Proceed && *final(state) == *old(state) && !na_consumed(*old(self), *final(self))
                && final(self).status == (if count > 0 { Status::StepInto { count: (count - 1) as u16 } } else { Status::WaitForAction }),
            pre_status(*old(self), *old(state)) is Continue ==>
                r is Proceed && *final(state) == *old(state) && !na_consumed(*old(self), *final(self)) && final(self).status is Continue,
            pre_status(*old(self), *old(state)) is Finish ==>
                r is Proceed && *final(state) == *old(state) && !na_consumed(*old(self), *final(self))
                && final(self).status == (if sig_spec(old(state).mem[old(state).pc as int]) == Some(SignificantInstr::Return)
                                          { Status::WaitForAction } else { Status::Finish }),
            pre_status(*old(self), *old(state)) matches Status::StepOver { return_addr, depth, by_jump } ==> !stepover_reached(pre_status(*old(self), *old(state)), *old(state)) ==>
                r is Proceed && *final(state) == *old(state) && !na_consumed(*old(self), *final(self))
                && final(self).status == stepover_next(return_addr, depth, by_jump, *old(state)),
            // ---- C11/C16: paused (breakpoint, HALT, PC outside user space, step finished): a command is consumed
            //      (or the script has ended and the debugger detaches) before anything else happens
            (pre_status(*old(self), *old(state)) is WaitForAction || stepover_reached(pre_status(*old(self), *old(state)), *old(state))) ==>
                na_consumed(*old(self), *final(self)) || (remaining(old(self).command_reader) == 0 && r is StopDebugger),
            // ---- C10: right after a resuming command was read, control goes back with the status that command asks for ON THE
            //      MACHINE AS IT IS NOW (`step out` looks at the instruction under the current PC, not the one seen before goto/reset)
            r is Proceed && na_consumed(*old(self), *final(self)) ==> (last_cmd(final(self).command_reader) matches Some(c)
                && is_resuming(c) && final(self).status == after_resume(c, *final(state))),
            // ---- C16: Proceed without consuming a command means the run loop WILL execute an instruction
            r is Proceed && !na_consumed(*old(self), *final(self)) ==> will_execute(old(self).asm_source.orig, *final(state)),
            // ---- never Proceed onto a HALT
            r is Proceed ==> !at_halt(*final(state)),
