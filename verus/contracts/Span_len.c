        ensures r == self.len,
