        requires
            stmt_labels_filled(self.stmt),
        ensures
            enc_ok(r, enc_spec(self.stmt, self.line)),
