        ensures r == self.offs.0,
