        ensures
            // .orig at most once: the second call is an error and changes nothing
            old(self).orig is Some ==> r is Err && *final(self) == *old(self),
            old(self).orig is None ==> r is Ok && final(self).orig == Some(val) && final(self).ast == old(self).ast
                && final(self).breakpoints == old(self).breakpoints && final(self).src == old(self).src,
