        requires
            bp_wf(old(self).0@),
        ensures
            bp_wf(final(self).0@),
            r == bp_has(old(self).0@, address),
            !bp_has(final(self).0@, address),
            forall|a: u16| a != address ==> (bp_has(final(self).0@, a) <==> bp_has(old(self).0@, a)),
            forall|i: int| 0 <= i < final(self).0@.len() ==> old(self).0@.contains(#[trigger] final(self).0@[i]),
