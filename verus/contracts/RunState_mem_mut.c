        ensures *r == old(self).mem[addr as int],
            final(self).mem@ == old(self).mem@.update(addr as int, *final(r)),
            final(self).reg == old(self).reg, final(self).pc == old(self).pc, final(self).flag == old(self).flag,
            final(self).orig == old(self).orig, final(self)._psr == old(self)._psr,
