        requires
            pstream_ok(*old(self)),
            // preprocess_simple never produces Byte / Breakpoint tokens
            forall|i: int| 0 <= i < old(self).toks.all().len() ==> !((#[trigger] old(self).toks.all()[i]).kind is Byte || old(self).toks.all()[i].kind is Breakpoint),
        ensures
            pframe(*old(self), *final(self)), final(sym)@ == old(sym)@,
            // exactly one well-formed instruction or trap, and nothing after it
            r matches Ok(st) ==> !(st is RawWord) && !at_end(*old(self)) && at_end(*final(self))
                && match cur(*old(self)).kind {
                    TokenKind::Instr(k) => accepts(k, old(self).toks.all().skip(old(self).toks.pos() + 1)) matches Some(n)
                        && stmt_ok(k, st, old(self).toks.all().skip(old(self).toks.pos() + 1), old(self).line, old(self).src, old(sym)@)
                        && old(self).toks.all().len() == old(self).toks.pos() + n + 1,
                    // a trap alias is its vector and nothing after it; `trap <v>` is the 8-bit vector and nothing after it
                    TokenKind::Trap(k) => match trap_vector_spec(k) {
                        Some(v) => st == (AirStmt::Trap { trap_vect: v }) && old(self).toks.all().len() == old(self).toks.pos() + 1,
                        None => old(self).toks.all().len() == old(self).toks.pos() + 2
                            && num_ok(old(self).toks.all()[old(self).toks.pos() + 1], Bits::Unsigned(8))
                            && st == (AirStmt::Trap { trap_vect: low8(num_of(old(self).toks.all()[old(self).toks.pos() + 1])) }),
                    },
                    _ => false,
                },
