        ensures
            // duplicate definitions are rejected; otherwise exactly this key is bound to this line
            r is Err <==> old(sym)@.contains_key(label@),
            r is Ok ==> final(sym)@ == old(sym)@.insert(label@, line),
            // (what the table holds after a REJECTED definition is not pinned down: the assembly fails either way)
            r is Err ==> final(sym)@ == old(sym)@ || final(sym)@ == old(sym)@.insert(label@, line),
