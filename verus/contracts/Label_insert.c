        ensures
            // duplicate definitions are rejected; otherwise exactly this key is (re)bound to this line
            r is Err <==> old(sym)@.contains_key(label@),
            final(sym)@ == old(sym)@.insert(label@, line),
