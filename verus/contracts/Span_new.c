        ensures r.offs == offs, r.len == len,
