        ensures r.orig is None, r.ast@.len() == 0, r.breakpoints.0@.len() == 0, r.src == src,
