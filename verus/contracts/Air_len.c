        ensures r == self.ast@.len(),
