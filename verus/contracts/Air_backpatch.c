        ensures
            final(sym)@ == old(sym)@,
            final(self).orig == old(self).orig, final(self).breakpoints == old(self).breakpoints, final(self).src == old(self).src,
            final(self).ast@.len() == old(self).ast@.len(),
            r is Ok ==> forall|i: int| 0 <= i < old(self).ast@.len() ==>
                backpatched(old(self).ast@[i], #[trigger] final(self).ast@[i], old(sym)@) && stmt_labels_filled(final(self).ast@[i].stmt),
            // an undefined label anywhere is an error
            (exists|i: int| 0 <= i < old(self).ast@.len() && (stmt_label(#[trigger] old(self).ast@[i].stmt) matches Some(l) && resolved(l, old(sym)@) is None)) ==> r is Err,
